#!/usr/bin/env python3
"""Regenerates MANIFEST.json from the table below (kept next to the driver so the two cannot drift)."""
import json, subprocess

HOOK_COMMITS = ["c341338", "65a25d2"]

CLAIMED = {
 # id: (engine, category, technique, level text, level note, design ref)
 "C13": ("LOGRT", "exploration",
         "property-based round-trip + metamorphic hash sensitivity (rapid), native fuzz of the JSON decoder in the thorough tier",
         "Generated chains of every log kind x target are pushed through the API JSON form and through an emulated store row and must come back equal and re-hash to the stored hash; exploration of a generated input space with shrinking, not a proof.",
         "Trusted: the jsonb/timestamptz emulation (generic decode with exact numbers, instant truncated to microseconds); log dates are ledger.Now()-shaped (UTC, microseconds); no NUL in strings.",
         "DESIGN.md 5/C13"),
}

NOT_YET = "check not built yet in this revision of /verif (planned, see DESIGN.md section 5)"

def main():
    ids = ["C%02d" % i for i in range(1, 21)]
    checks = []
    for pid in ids:
        if pid not in CLAIMED:
            continue
        eng, cat, tech, text, note, ref = CLAIMED[pid]
        checks.append({
            "property_id": pid,
            "quick_cmd": "./check %s quick" % pid,
            "thorough_cmd": "./check %s thorough" % pid,
            "evidence_file": "/verif/evidence/%s.json" % pid,
            "replay_cmd_template": "./check %s --replay {path}" % pid,
            "engine": eng,
            "level_claimed": {"category": cat, "text": text, "design_ref": ref},
            "level_note": note,
            "technique": tech,
        })
    man = {
        "version": 1,
        "setup_cmd": "./setup.sh",
        "hooks": {
            "guard": "verif",
            "enable": "go1.26.8 test -tags verif (GOFLAGS=-mod=mod GOTOOLCHAIN=local), harness module /verif/harness with replace => /repo",
            "baseline_off_cmd": "/verif/baseline_off.sh",
            "source_commits": HOOK_COMMITS,
            "add_only": True,
        },
        "engines": ENGINES,
        "checks": checks,
        "notes": "All checks are property-based tests (pgregory.net/rapid v1.3.0, go1.26.8 for testing/synctest) driven by ./check; see DESIGN.md. known_findings.json lists repaired (fixed) and recorded (known) defects.",
        "not_applicable": [{"property_id": p, "reason": NA.get(p, NOT_YET)} for p in ids if p not in CLAIMED],
    }
    json.dump(man, open("MANIFEST.json", "w"), indent=1)
    open("MANIFEST.json", "a").write("\n")

ENGINES = [
 {"name": "LOGRT", "path": "harness/checks/c13_test.go", "serves_properties": ["C13"], "kind_free_text": "rapid generators + round-trip / metamorphic oracles"},
]
NA = {}

if __name__ == "__main__":
    main()
