#!/usr/bin/env python3
"""Regenerates MANIFEST.json from the table below (kept next to the driver so the two cannot drift)."""
import json, subprocess

HOOK_COMMITS = ["c341338", "65a25d2", "21b6488", "b38e07e", "74004a6", "a523ae9"]  # abbreviated hashes in /repo

CLAIMED = {
 # id: (engine, category, technique, level text, level note, design ref)
 "C13": ("LOGRT", "exploration",
         "property-based round-trip + metamorphic hash sensitivity (rapid) on constructor-built chains, on entries written by a real Commander and on entries written through the real HTTP routers with arbitrary bytes in headers and paths; the stored payload is what the real InsertLogs binds; native fuzz of the JSON decoder in the thorough tier",
         "Generated chains of every log kind x target are pushed through the API JSON form and through an emulated store row and must come back equal and re-hash to the stored hash; exploration of a generated input space with shrinking, not a proof.",
         "Trusted: the jsonb/timestamptz emulation (generic decode with exact numbers, instant truncated to microseconds); log dates are ledger.Now()-shaped (UTC, microseconds); no NUL in strings.",
         "DESIGN.md 5/C13"),
 "C01": ("NUMGEN", "exploration",
         "property-based testing (rapid): generated programs x bindings x balance tables; invariant over the output (running-balance floor) plus reference-model implication for uncovered sends",
         "Every accepted run's postings are replayed in order over the drawn balances and no non-world debit may pass -(granted overdraft); uncovered sends must be refused as insufficient funds. Generated programs with shrinking; not exhaustive.",
         "Trusted: the harness's AST (grants are read from it), the reference interpreter for the 'cannot cover' direction only.",
         "DESIGN.md 5/C01"),
 "C03": ("NUMGEN", "exploration",
         "property-based testing: validity predicates on per-send posting groups (sign, conservation/partition into destination leaves with spec-level allocation, caps, ordered-source rule)",
         "Per send, the emitted postings must partition exactly among the destination leaves with the floored-share-plus-leftover / min(max, rest) amounts of the stated total, nothing extra, caps respected, ordered sources honoured. Validity predicates, independent of the reference run's postings.",
         "Trusted: leaf amounts are computed by the harness from its own AST with the allocation rule as stated in the property; for [A *] the total comes from the reference interpreter.",
         "DESIGN.md 5/C03"),
 "C08": ("NUMGEN", "exploration",
         "differential property-based testing against a reference interpreter written from the source-level meaning; must-reject variants; metamorphic cache/concurrency runs",
         "Differential: real compile+VM vs harness reference interpreter on normalised postings, metadata, final balances and error class for generated programs over the whole grammar; 19 must-reject mutations; compilation cache under sizes/eviction/concurrency.",
         "Trusted: the reference interpreter (a disagreement is triaged before it is reported; one known finding listed).",
         "DESIGN.md 5/C08"),
 "C12": ("NUMGEN", "exploration",
         "property-based robustness testing (loose AST generator, token/byte mutation, splicing) with panic / watchdog / A-B-A oracle, a long-lived real engine fed with the same inputs plus keyed writes of every kind, and scheduled engine histories (no request may panic); native go fuzzing in the thorough tier",
         "No panic in any stage nor in rendering errors, termination within a watchdog, and A-B-A repeatability through the shared compilation cache, over loosened programs, hostile bindings and mutated text; plus coverage-guided native fuzzing (thorough).",
         "Trusted: watchdog expiry is a hang only when it repeats on a solitary re-run.",
         "DESIGN.md 5/C12"),

 "C18": ("HTTPSIM", "exploration",
         "property-based testing of the real v2 router over a recording fake backend with generated failure patterns (error values of every class, and the ledger panicking under an element); positional reference model of results, executed set and status; a real-engine family (persisted log == successful elements in order) and a concurrent stress family (parallel clients, per-request positional oracle; the schedule is not owned there)",
         "Generated bulk bodies (all actions, unknown actions, per-element keys, failure patterns, flag values) are served by the real router; the backend calls and the response must match a positional model derived from the property statement.",
         "Trusted: the fake backend (answers from the generated pattern); error-code expectations are limited to the mappings visible in the handler.",
         "DESIGN.md 5/C18"),
 "C19": ("HTTPSIM", "exploration",
         "property-based / differential testing of the real top-level router in read-only mode: generated requests over every walked route, write-call counter oracle, read-write twin for non-triviality",
         "Requests over every registered route x methods x bodies x headers x queries must cause zero write calls in read-only mode; the read-write twin shows which of them are real writes.",
         "Trusted: the recording fake backend; chi.Walk lists every registered route.",
         "DESIGN.md 5/C19"),

 "C04": ("SQLREC", "exploration",
         "PARTIAL: metamorphic property-based testing of the SQL text per ledger name (recording driver + PostgreSQL lexer); fold-based oracles for the Go-side volume derivations and for storage.InMemoryStore",
         "PARTIAL CLAIM. The SQL/plpgsql projection (triggers, volume functions, point-in-time reads) cannot be executed without PostgreSQL and is not covered. Covered: (a) every read method's SQL depends on the ledger name exactly through string constants, and every SELECT block (sub-selects, CTE bodies, lateral joins) that reads a ledger-scoped table restricts the ledger itself or joins on a seq key (ledger isolation); (b) Go-side volume derivations equal the fold; (c) InMemoryStore equals the fold; (d) the aggregated-balances statement built in Go (point-in-time bound, address filters, ledger predicate) evaluated over a Go model of the moves table equals the fold of that ledger's entries up to the instant; (e) transactions read back with expand=volumes / effectiveVolumes report the replay's pre- and post-commit volumes (the Go-side derivation in ExpandedTransaction.toCore), for rows the replay defines; (f) the point-in-time statements for transaction and account metadata (one by id / address, or lists with and without a metadata filter, the transaction list read page by page forward and back) evaluated by the mini SQL engine over the revision rows a generated history leaves equal the replay of that history up to the instant; (g) the comparison operator a client writes in a list filter reaches the statement (two different operators never give the same statements, and the statements differ in comparison operators only).",
         "Trusted: bun renders arguments into the statement text; the PostgreSQL lexer; the harness fold; for (d) the harness's model of what the insert trigger writes into moves (one row per posting side, running volumes, insertion date = log date, effective date = transaction timestamp); for (f) the harness's model of the revision rows the history triggers keep and the mini engine's reading of joins, bounds, ORDER BY, LIMIT and DISTINCT ON. NOT covered: 0-init-schema.sql behaviour.",
         "DESIGN.md 5/C04 and 6"),
 "C15": ("LOCKSIM", "exploration",
         "stateful model-based property testing of the real DefaultLocker inside a synctest bubble; generated action lists incl. cancel-at-the-moment-of-grant and requests naming no account; invariants observed from outside; a run that does not come back is a hang of the manager",
         "Generated request/release/cancel/grant-race sequences run on the real locker; after every step exclusion, no-grantable-waiter-left, cancelled-requests-return hold, and at the end a probe proves that nothing stays locked. Each list runs 6 times because Go's select is random when both outcomes are ready.",
         "Trusted: synctest.Wait gives exact quiescence; the only delay injected is at the verifhook point lock.queued.",
         "DESIGN.md 5/C15"),
 "C20": ("SQLREC", "exploration",
         "metamorphic property-based testing: hostile request (values, metadata keys, operator names, and other spellings of the accepted filter keys) vs benign twin of the same shape through the real routers and ledgerstore over a recording driver; PostgreSQL-lexer skeleton equality",
         "Generated filter requests (all keys/operators, v1 parameters and v2 bodies) with hostile strings must either be rejected or produce SQL whose token skeleton equals that of a harmless twin.",
         "Trusted: the PostgreSQL lexer of harness/sqlrec (standard_conforming_strings=on); jsonpath/JSON content inside a string constant is not inspected.",
         "DESIGN.md 5/C20"),

 "C09": ("HTTPSIM", "exploration",
         "property-based testing through four entry points (Commander, v2, v1, bulk) over a real Commander and the model store; exact-equality oracle on answer and persisted entry, no-trace oracle on rejection; plus a parallel stress family (real goroutines submitting lists of different shapes together; invariant oracle, schedule not owned)",
         "Generated posting lists (full address/asset grammar, repeated accounts and monetaries, chains, 0 and >64-bit amounts, metadata, reference, timestamps, invalid variants) are submitted for real; a success must commit exactly the request, a rejection must leave nothing.",
         "Trusted: model store in place of PostgreSQL; sequential requests. One known finding listed (zero instant taken as 'no timestamp').",
         "DESIGN.md 5/C09"),
 "C17": ("SQLREC", "exploration",
         "model-based property testing of pagination over a mini SQL engine: generated collections / page sizes / orders / filters walked through bunpaginate, ledgerstore and the HTTP handlers; enumeration, previous-page and filter-preservation oracles; plus a round-trip family on the tokens themselves (generated queries of every list: the token decodes into the query it was made from, expansions and filters included)",
         "Generated collections are served by a mini SQL engine behind the real bun/ledgerstore/handler code; following next must enumerate the filtered collection exactly once in order, previous must give the page before, and every statement of a walk must carry the first request's filter.",
         "Trusted: the mini engine's reading of WHERE conjuncts / ORDER BY / LIMIT / OFFSET (unknown statement shapes abort the case as a harness error).",
         "DESIGN.md 5/C17"),

 "C02": ("ENGINE-SIM", "exploration",
         "stateful property-based testing with a harness-owned scheduler (rapid + testing/synctest); invariant over the persisted history (independent fold, per-debit floor)",
         "Generated sets of concurrent creates/reverts run on the real Commander/locker/batcher under generated interleavings, with callers that go away at generated points, failing store reads and a slow store; the persisted log is folded independently and every debit must respect the balance at its log position. Exploration: many histories x schedules, no exhaustiveness.",
         "Trusted: model store in place of PostgreSQL (reads see exactly the committed batches); interleavings at gate granularity (store calls, monitor calls, verifhook points); the harness fold.",
         "DESIGN.md 5/C02"),
 "C05": ("ENGINE-SIM", "exploration",
         "stateful property-based testing with generated schedules, batch sizes, crash/restart points and a ticking clock; history invariant (ids, hash recomputation incl. read-back form, tx ids); a shared-bucket family (two ledgers of one bucket, chain head and insertion through the real SQL store, restarts: each ledger's log is a chain of its own)",
         "The sequence of logs handed to the store, across commander generations, must carry ids 0..n-1, hashes that recompute from stored content and previous hash, and transaction ids 0,1,2.. in log order. Exploration of generated histories/schedules/crash points.",
         "Trusted: model store; crash = goroutines stop at their next gate and un-inserted batches vanish; storeform emulation for the read-back recomputation.",
         "DESIGN.md 5/C05"),
 "C06": ("ENGINE-SIM", "fault_enumeration",
         "per generated history, exhaustive enumeration of every crash position and every single InsertLogs failure (1 case in 20); a bulk-over-real-engine family shared with C18 (1 in 25); a shared-bucket family (two ledgers of one bucket, real SQL store for InsertLogs and the key look-up, 1 in 25); per generated batch, exhaustive enumeration of every failing driver-level step (begin, prepare, row, flush, close, commit) of the real ledgerstore.Store.InsertLogs over a recording SQL driver (1 in 25); plus sampled single runs with crash points, a store fault, failing reads and cancellations drawn with the plan (19 in 20); bijection oracle between success responses and persisted entries",
         "For each generated history and schedule the check re-runs it once per scheduler step with the process dying there, and once per InsertLogs call failing: exhaustive over single crash points / single store faults of that history; histories themselves are sampled.",
         "Trusted: model store; the crash model (see DESIGN.md 4.2); attribution of entries to requests through request-chosen tags.",
         "DESIGN.md 5/C06"),
 "C07": ("ENGINE-SIM", "exploration",
         "stateful property-based testing: duplicated keyed requests x schedules (incl. one request held back while the others run) x restart x failing store reads x cancellations (incl. at the moment of hand-off); invariant: <=1 entry per key, equal outcomes; a look-up fault family (the key look-up through the real store fails with a generated SQLSTATE); a shared-bucket family (two ledgers, the key look-up through the real ledgerstore SQL over a recording database: a key is a ledger's own); plus a parallel stress family (real goroutines released together on one key; the schedule is not owned there, the oracle is an invariant)",
         "Generated groups of identical keyed requests (all write kinds) are issued sequentially, racing and across a crash; at most one entry may carry the key and every success must return it.",
         "Trusted: model store; read-back of the keyed log through the storeform emulation.",
         "DESIGN.md 5/C07"),
 "C10": ("ENGINE-SIM", "exploration",
         "stateful property-based testing: revert races (incl. one revert held back while another runs from start to finish) and later histories; oracle: exact inversion, once-only, floor for unforced, balance restoration; an HTTP family; plus a parallel stress family (real goroutines released together on one target; invariant oracle)",
         "Generated committed shapes are reverted (forced/unforced, racing, after funds moved on); every revert entry must be the exact inverse, at most one per target, never overdraw unless forced, and restore balances when untouched.",
         "Trusted: model store (reverted flag served from the harness fold; the SQL projection of the flag is outside, see C04).",
         "DESIGN.md 5/C10"),
 "C11": ("ENGINE-SIM", "exploration",
         "stateful property-based testing: same-reference creates (incl. previews and bursts without a common account lock) x reverts of the holder x schedules x competitor outcome x faults; invariant over persisted history and error classes; a look-up fault family (a committed reference comes again while the real store's look-up fails with a generated SQLSTATE: its classification of driver errors is in the loop); plus a parallel stress family (real goroutines released together on one reference against a real Commander: the reservation has no blocking point a scheduler could own; invariant oracle)",
         "Generated groups of creates sharing a reference race each other and the persistence of competitors; at most one committed transaction per reference, refusals are CONFLICT, no spurious CONFLICT.",
         "Trusted: model store (reference lookup sees committed batches only).",
         "DESIGN.md 5/C11"),
 "C14": ("ENGINE-SIM", "exploration",
         "metamorphic property-based testing: history with previews vs without vs preview-made-real, byte-level comparison of log, responses and events; plus a concurrent family (half of the cases) in which previews race real writes and the no-effect clauses are history invariants",
         "Three-way metamorphic relation on generated sequential histories with restarts: inserting previews must change nothing observable, and a preview must answer what the real write answers.",
         "Trusted: model store; the bubble's fake clock (stands still, so hashes are comparable).",
         "DESIGN.md 5/C14"),
 "C16": ("ENGINE-SIM", "exploration",
         "stateful property-based testing with the real ledgerMonitor over a recording publisher; oracle: publication <-> persisted entry content match, at-least-once (matching by augmenting paths); a shared-bucket family (events name their ledger and describe its entries)",
         "Every message published during generated histories (real, preview, keyed replay, concurrent) is decoded and must equal an entry persisted at publication time; every acknowledged entry must be published.",
         "Trusted: model store; publication order inside one request is the code's own.",
         "DESIGN.md 5/C16"),
}

NOT_YET = "check not built yet in this revision of /verif (planned, see DESIGN.md section 5)"

def main():
    ids = ["C%02d" % i for i in range(1, 21)]
    checks = []
    for pid in ids:
        if pid not in CLAIMED:
            continue
        eng, cat, tech, text, note, ref = CLAIMED[pid]
        checks.append({
            "property_id": pid,
            "quick_cmd": "./check %s quick" % pid,
            "thorough_cmd": "./check %s thorough" % pid,
            "evidence_file": "/verif/evidence/%s.json" % pid,
            "replay_cmd_template": "./check %s --replay {path}" % pid,
            "engine": eng,
            "level_claimed": {"category": cat, "text": text, "design_ref": ref},
            "level_note": note,
            "technique": tech,
        })
    man = {
        "version": 1,
        "setup_cmd": "./setup.sh",
        "hooks": {
            "guard": "verif",
            "enable": "go1.26.8 test -tags verif (GOFLAGS=-mod=mod GOTOOLCHAIN=local), harness module /verif/harness with replace => /repo",
            "baseline_off_cmd": "/verif/baseline_off.sh",
            "source_commits": HOOK_COMMITS,
            "add_only": True,
        },
        "engines": ENGINES,
        "checks": checks,
        "notes": "All checks are property-based tests (pgregory.net/rapid v1.3.0, go1.26.8 for testing/synctest) driven by ./check; see DESIGN.md. known_findings.json lists repaired (fixed) and recorded (known) defects.",
        "not_applicable": [{"property_id": p, "reason": NA.get(p, NOT_YET)} for p in ids if p not in CLAIMED],
    }
    json.dump(man, open("MANIFEST.json", "w"), indent=1)
    open("MANIFEST.json", "a").write("\n")

ENGINES = [
 {"name": "SQLREC", "path": "harness/sqlrec", "serves_properties": ["C04", "C17", "C20"], "kind_free_text": "recording database/sql driver behind bun + PostgreSQL lexer + mini result engine"},
 {"name": "LOCKSIM", "path": "harness/checks/c15_test.go", "serves_properties": ["C15"], "kind_free_text": "real DefaultLocker in a synctest bubble driven by generated action lists"},
 {"name": "HTTPSIM", "path": "harness/httpsim", "serves_properties": ["C09", "C17", "C18", "C19", "C20"], "kind_free_text": "real chi routers over a recording fake backend, served with httptest"},
 {"name": "NUMGEN", "path": "harness/numgen", "serves_properties": ["C01", "C03", "C08", "C12"], "kind_free_text": "Numscript AST, typed and loose generators, printer, reference interpreter"},
 {"name": "ENGINE-SIM", "path": "harness/enginesim", "serves_properties": ["C02", "C05", "C06", "C07", "C10", "C11", "C14", "C16"], "kind_free_text": "deterministic schedule/crash/fault simulation of command.Commander in a synctest bubble + history oracles"},
 {"name": "LOGRT", "path": "harness/checks/c13_test.go", "serves_properties": ["C13"], "kind_free_text": "rapid generators + round-trip / metamorphic oracles"},
]
NA = {}

if __name__ == "__main__":
    main()
