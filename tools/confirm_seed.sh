#!/bin/bash
# tools/confirm_seed.sh <worktree> <go test -run regexp> <package dir relative to worktree>
# Confirms a seeded change: demo fails with it, passes without it, existing tests still pass with it.
export GOFLAGS=-mod=mod GOPROXY=off GOSUMDB=off GOTOOLCHAIN=local
wt="$1"; re="$2"; pkg="$3"
cd "$wt" || exit 3
[ -f seed/patch.diff ] || { echo "no seed/patch.diff"; exit 3; }
run_demo() { (cd "$wt/$pkg/.." 2>/dev/null; cd "$wt" && go test -vet=off -count=1 -run "$re" "./$pkg/" 2>&1 | tail -4); }
with=$(run_demo); echo "--- demo WITH change:"; echo "$with" | cut -c1-200
git apply -R seed/patch.diff || { echo "cannot reverse patch"; exit 3; }
without=$(run_demo); echo "--- demo WITHOUT change:"; echo "$without" | cut -c1-200
git apply seed/patch.diff || { echo "cannot re-apply patch"; exit 3; }
echo "--- existing tests WITH change (failures other than the demo and the docker-only packages):"
go test -vet=off -count=1 -skip "$re" ./internal/... 2>&1 | grep -E "^(FAIL|---)" | grep -v "internal/storage|TestMigrateLedgerV1" | head
(cd libs && go test -vet=off -count=1 ./query/... ./api/... ./collectionutils/... ./metadata/... 2>&1 | grep -E "^(FAIL|---)" | head)
echo "$with" | grep -q "^FAIL\|FAIL" && echo "$without" | grep -q "^ok" && echo "CONFIRMED" || echo "NOT CONFIRMED"
