#!/bin/bash
# tools/try_seed.sh <patch.diff> <tier> <ID> [<ID>...]
# Applies a seeded change to /repo, runs the given checks, and ALWAYS restores /repo.
set -u
patch="$(realpath "$1")"; tier="$2"; shift 2
cd /verif
if ! git -C /repo diff --quiet; then echo "/repo has uncommitted changes: refusing"; exit 3; fi
git -C /repo apply "$patch" || { echo "patch does not apply"; exit 3; }
# evidence and replay files written while a seeded change is applied describe the changed tree: put them back
snap=$(mktemp -d /var/tmp/verif-tryseed-XXXXXX); cp -a evidence "$snap/evidence"; ls replays/*/* 2>/dev/null | sort > "$snap/replays.before"
restore() {
  git -C /repo checkout -- . ; git -C /repo clean -fdq -- internal libs >/dev/null 2>&1
  rm -rf evidence; cp -a "$snap/evidence" evidence
  ls replays/*/* 2>/dev/null | sort | comm -13 "$snap/replays.before" - | xargs -r rm -f
  rm -rf "$snap"
}
trap restore EXIT
for id in "$@"; do
  out=$(VERIF_SEED=${VERIF_SEED:-1} ./check "$id" "$tier" 2>&1)
  rc=$?
  echo "== $id $tier rc=$rc: $(echo "$out" | grep -E '^(VIOLATION|OK|INCONCLUSIVE|KNOWN-FINDING)' | head -3 | cut -c1-300)"
  if [ $rc -eq 1 ]; then echo "$out" | grep -A3 "VERIF-VIOLATION" | head -8 | cut -c1-400; fi
done
