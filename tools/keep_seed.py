#!/usr/bin/env python3
"""tools/keep_seed.py <seed id> <worktree> <property> <demo test regexp> <demo pkg> <needs...>
Copies a confirmed seeded change into /verif/seeded/<id>/ (patch.diff, demonstration, README, meta.json)."""
import json, os, shutil, sys, glob
sid, wt, prop, demo_re, demo_pkg = sys.argv[1:6]
needs = " ".join(sys.argv[6:])
dst = os.path.join("/verif/seeded", sid)
os.makedirs(dst, exist_ok=True)
shutil.copy(os.path.join(wt, "seed", "patch.diff"), os.path.join(dst, "patch.diff"))
demos = [f for f in glob.glob(os.path.join(wt, "seed", "*_test.go"))]
for f in demos:
    shutil.copy(f, os.path.join(dst, os.path.basename(f) + ".txt"))  # .txt: must not be compiled as part of /verif
if os.path.exists(os.path.join(wt, "seed", "README.md")):
    shutil.copy(os.path.join(wt, "seed", "README.md"), os.path.join(dst, "README.md"))
meta = {
    "id": sid,
    "breaks_property": prop,
    "needs_to_manifest": needs,
    "origin": "written by an independent sub-agent that saw only the property text and a scratch worktree of /repo",
    "demonstration": {"files": [os.path.basename(f) + ".txt" for f in demos], "place_in": demo_pkg, "run": "go test -vet=off -count=1 -run '%s' ./%s/" % (demo_re, demo_pkg)},
    "confirmed": "tools/confirm_seed.sh: demonstration FAILS with the change, PASSES without it; existing tests (./internal/... minus docker-only storage packages, libs query/api/collectionutils/metadata) unchanged with the change; patch applies to /repo HEAD",
    "detected_by": [],
}
mp = os.path.join(dst, "meta.json")
if os.path.exists(mp):
    old = json.load(open(mp))
    meta["detected_by"] = old.get("detected_by", [])
json.dump(meta, open(mp, "w"), indent=1)
print("kept", dst)
