#!/usr/bin/env python3
"""Regenerates the seeded-changes table of DESIGN.md (between the SEED-TABLE markers) from seeded/*/meta.json."""
import json, os, re
os.chdir("/verif")
rows = []
for sid in sorted(os.listdir("seeded")):
    mp = os.path.join("seeded", sid, "meta.json")
    if not os.path.exists(mp):
        continue
    m = json.load(open(mp))
    det = []
    for d in m.get("detected_by", []):
        if d.get("detected"):
            n = d.get("cases_before_failure")
            det.append("%s %s (%s%s)" % (d["check"], d["tier"], d.get("signature"), ", after %d cases" % n if n is not None else ""))
        else:
            det.append("%s %s: not detected" % (d["check"], d["tier"]))
    extra = (" — " + m["strengthened"]) if m.get("strengthened") else ""
    rows.append("| `%s` | %s | %s | %s%s |" % (sid, m["breaks_property"], m["needs_to_manifest"].replace("|", "/"), "; ".join(det) or "not run", extra))
table = "| seeded change | breaks | needs, in order to manifest | detected by (VERIF_SEED=1) |\n|---|---|---|---|\n" + "\n".join(rows) + "\n"
s = open("DESIGN.md").read()
a, b = "<!-- SEED-TABLE-BEGIN -->", "<!-- SEED-TABLE-END -->"
if a not in s:
    s += "\n### 11.6 Seeded changes and the checks that catch them\n\n" + a + "\n" + b + "\n"
s = re.sub(re.escape(a) + r".*?" + re.escape(b), a + "\n" + table + b, s, flags=re.S)
open("DESIGN.md", "w").write(s)
print(len(rows), "rows")
