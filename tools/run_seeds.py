#!/usr/bin/env python3
"""tools/run_seeds.py [tier] [seed-id ...] — applies every kept seeded change to /repo in turn, runs the
check(s) of the property it breaks (plus related ones), records the outcome in seeded/<id>/meta.json and
prints a table. /repo is always restored."""
import json, os, re, subprocess, sys
os.chdir("/verif")
tier = sys.argv[1] if len(sys.argv) > 1 and sys.argv[1] in ("quick", "thorough") else "quick"
only = [a for a in sys.argv[1:] if a not in ("quick", "thorough")]
ALSO = {"C04": ["C17"], "C01": ["C08"], "C03": ["C08"], "C05": ["C06"], "C12": ["C08"], "C09": ["C18"], "C14": ["C16"], "C16": ["C14"], "C02": [], "C07": [], "C11": []}
rows = []
# evidence and replay files written while a seeded change is applied describe the changed tree: put them back at the end
import shutil, tempfile, glob, atexit
_snap = tempfile.mkdtemp(prefix="verif-runseeds-", dir="/var/tmp")
shutil.copytree("evidence", os.path.join(_snap, "evidence"))
_before = set(glob.glob("replays/*/*"))
def _restore():
    shutil.rmtree("evidence", ignore_errors=True)
    shutil.copytree(os.path.join(_snap, "evidence"), "evidence")
    for f in set(glob.glob("replays/*/*")) - _before:
        os.remove(f)
    shutil.rmtree(_snap, ignore_errors=True)
atexit.register(_restore)
for sid in sorted(os.listdir("seeded")):
    d = os.path.join("seeded", sid)
    mp = os.path.join(d, "meta.json")
    if not os.path.exists(mp) or (only and sid not in only):
        continue
    meta = json.load(open(mp))
    prop = meta["breaks_property"]
    checks = [prop] + ALSO.get(prop, [])
    if subprocess.run(["git", "-C", "/repo", "diff", "--quiet"]).returncode != 0:
        sys.exit("/repo has uncommitted changes")
    ap = subprocess.run(["git", "-C", "/repo", "apply", os.path.abspath(os.path.join(d, "patch.diff"))], capture_output=True, text=True)
    if ap.returncode != 0:
        rows.append((sid, prop, "PATCH DOES NOT APPLY", ""))
        continue
    det = []
    try:
        for c in checks:
            p = subprocess.run(["./check", c, tier], capture_output=True, text=True, env=dict(os.environ, VERIF_SEED=os.environ.get("VERIF_SEED", "1")))
            out = p.stdout + p.stderr
            sig = re.search(r"signature=(\S+)", out)
            after = re.search(r"failed after (\d+) tests", out)
            det.append({"check": c, "tier": tier, "verif_seed": int(os.environ.get("VERIF_SEED", "1")), "exit": p.returncode,
                        "detected": p.returncode == 1, "signature": sig.group(1) if sig else None,
                        "cases_before_failure": int(after.group(1)) if after else None})
    finally:
        subprocess.run(["git", "-C", "/repo", "checkout", "--", "."])
        subprocess.run(["git", "-C", "/repo", "clean", "-fdq", "--", "internal", "libs"])
    meta["detected_by"] = [x for x in meta.get("detected_by", []) if x.get("tier") != tier] + det
    json.dump(meta, open(mp, "w"), indent=1)
    for x in det:
        rows.append((sid, x["check"], "DETECTED" if x["detected"] else ("missed" if x["exit"] == 0 else "exit %d" % x["exit"]), "%s after %s cases" % (x["signature"], x["cases_before_failure"]) if x["detected"] else ""))
for r in rows:
    print("%-40s %-4s %-9s %s" % r)
