import json,sys
# tools/seed_prompt.py <property id> [extra sentence] [scratch root, default /tmp/seed]
# Prints the prompt handed to a fresh sub-agent: the property text, the task, the environment. Nothing from /verif's checks.
p={json.loads(l)['id']: json.loads(l) for l in open('/verif/properties.jsonl') if l.strip()}[sys.argv[1]]
root=sys.argv[3] if len(sys.argv)>3 else "/tmp/seed"
pid=sys.argv[1]
extra=sys.argv[2] if len(sys.argv)>2 else ""
print(f"""You are helping to evaluate a verification suite by mutation testing. You work ONLY inside the git worktree {root}/{pid} — a checkout of the Go project "formance ledger" (a programmable double-entry ledger: the Numscript DSL compiler and VM under internal/machine, the command engine under internal/engine/command, storage under internal/storage, the HTTP API under internal/api, shared libraries under libs/). Do NOT read or write anything under /verif or /repo and do not look for verification code elsewhere on this machine; what you write must be independent of it.

The property below holds for the unmodified code:

  Title: {p['title']}
  Statement: {p['statement']}
  Quantified over: {p['quantifier']}

Your task: produce ONE realistic source change (a small, plausible bug such as a developer could introduce in a refactoring or an optimisation) to the non-test Go code of the worktree that BREAKS this property, such that
 (a) the project still compiles,
 (b) every existing test that passes on the unmodified tree still passes with your change, and
 (c) the violation needs something specific to manifest — a particular interleaving of concurrent requests, a crash or fault at a particular point, a multi-step sequence of operations, an unusual input, or two cooperating sites that each look fine on their own — NOT something that ordinary single-request use would expose at once.
Do not edit test files, anything under internal/verifhook, or files with the build tag `verif`. Calls to `verifhook.Yield/Await/BeforeLock/Expose` in the code are no-op instrumentation points: leave them in place (you may move code around them). {extra}

Environment: fully offline, no PostgreSQL, no Docker. In every shell: export GOFLAGS=-mod=mod GOPROXY=off GOSUMDB=off GOTOOLCHAIN=local. Existing tests: (cd {root}/{pid} && go test -vet=off -count=1 ./internal/...) and (cd {root}/{pid}/libs && go test -vet=off -count=1 ./query/... ./api/... ./collectionutils/... ./metadata/...). Packages that need Docker/PostgreSQL (internal/storage, internal/storage/ledgerstore, libs/bun/..., libs/migrations, libs/publish) fail or are skipped on the unmodified tree as well: ignore those, but check that nothing else regresses. Your demonstration must run offline too (use storage.NewInMemoryStore, mocks, a fake database/sql driver, or your own small stand-ins).

Deliverables, all under {root}/{pid}/seed/ (create it):
 1. patch.diff — `git diff` of your source change only (not the seed/ directory, not the demonstration).
 2. a demonstration: a Go test (say where it must be placed; keep a copy in seed/) that FAILS with your change applied and PASSES on the unmodified code. Check both directions yourself (git stash / git apply -R) and keep the outputs.
 3. README.md — what you changed and where, why it breaks the property, exactly what is needed for the violation to manifest, and the commands you ran with their results.
Leave the worktree with your change APPLIED and the demonstration in place. In your final message report: the files changed, one paragraph describing the bug and its trigger, and the exact command that runs the demonstration. Keep the change small (ideally < 30 changed lines).""")
