#!/bin/bash
# tools/try_wt.sh <tree> <tier> <ID> [<ID>...]
# Runs checks against ANOTHER source tree (a scratch worktree that holds a seeded change) without touching /repo:
# /verif is copied to /var/tmp/verif-trywt, the harness module's replace directives are pointed at <tree>, and the
# copy's ./check is run there (its evidence and replay files stay in the copy). For development only: the registered
# commands always build from /repo.
set -u
tree="$(realpath "$1")"; tier="$2"; shift 2
copy=/var/tmp/verif-trywt
mkdir -p "$copy"
rsync -a --delete --exclude .git --exclude replays --exclude seeded --exclude 'harness/checks/testdata' /verif/ "$copy/"
sed -i "s#=> /repo/libs#=> $tree/libs#; s#=> /repo\$#=> $tree#" "$copy/harness/go.mod"
cd "$copy"
for id in "$@"; do
  out=$(VERIF_SEED=${VERIF_SEED:-1} ./check "$id" "$tier" 2>&1)
  rc=$?
  echo "== $id $tier rc=$rc: $(echo "$out" | grep -E '^(VIOLATION|OK|INCONCLUSIVE|KNOWN-FINDING)' | head -3 | cut -c1-300)"
  if [ $rc -eq 1 ]; then echo "$out" | grep -A3 "VERIF-VIOLATION" | head -8 | cut -c1-400; fi
  if [ $rc -eq 2 ]; then echo "$out" | tail -15 | cut -c1-300; fi
done
