#!/bin/bash
# Runs the repository's own test-suite with the verif guard OFF (default go
# toolchain, no build tags) and compares with /root/.vp/BASELINE.json.
# exit 0 iff every stable_pass test passes.
export GOFLAGS=-mod=mod GOPROXY=off GOSUMDB=off GOTOOLCHAIN=local
out=$(mktemp)
for m in . ./libs; do
  (cd /repo/$m && go test -json -vet=off -count=1 -timeout 25m ./... ) >> "$out" 2>/dev/null
done
python3 - "$out" <<'PY'
import json,sys
res={}
for line in open(sys.argv[1]):
    try: e=json.loads(line)
    except Exception: continue
    if e.get('Test') and e.get('Action') in('pass','fail','skip'):
        res[e['Package']+'::'+e['Test']]=e['Action']
base=json.load(open('/root/.vp/BASELINE.json'))['stable_pass']
bad=[t for t in base if res.get(t)!='pass']
print(f"baseline: {len(base)-len(bad)}/{len(base)} stable tests pass")
for t in bad[:40]: print("  NOT PASSING:",t,res.get(t))
sys.exit(1 if bad else 0)
PY
rc=$?
rm -f "$out"
exit $rc
