#!/bin/bash
# Offline setup: assemble go.sum for the harness module and build every check
# binary once so that the Go build cache is warm.
set -e
cd "$(dirname "$0")"
export GOFLAGS=-mod=mod GOPROXY=off GOSUMDB=off GOTOOLCHAIN=local
mkdir -p evidence replays
cat /repo/go.sum /repo/libs/go.sum harness/go.sum.extra harness/go.sum 2>/dev/null | sort -u > harness/go.sum.new && mv harness/go.sum.new harness/go.sum
cd harness
go1.26.8 vet -tags verif ./... 
out=$(mktemp -d /var/tmp/verif-setup-XXXXXX)
go1.26.8 test -c -tags verif -o "$out/checks.test" ./checks/
# trusted-base self tests (lexer, mini engine, model fold, allocate)
go1.26.8 test -tags verif -count=1 $(go1.26.8 list ./... | grep -v '/checks$') 
rm -rf "$out"
echo setup ok
