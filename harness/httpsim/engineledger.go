package httpsim

import (
	"context"
	"math/big"

	ledger "github.com/formancehq/ledger/internal"
	"github.com/formancehq/ledger/internal/engine"
	"github.com/formancehq/ledger/internal/engine/command"
	"github.com/formancehq/stack/libs/go-libs/metadata"
)

// EngineLedger forwards the four write methods to a real command.Commander
// exactly like engine.Ledger does (errors wrapped as command errors); reads
// are answered by the embedded fake.
type EngineLedger struct {
	*FakeLedger
	Commander *command.Commander
}

func (l *EngineLedger) CreateTransaction(ctx context.Context, parameters command.Parameters, data ledger.RunScript) (*ledger.Transaction, error) {
	ret, err := l.Commander.CreateTransaction(ctx, parameters, data)
	if err != nil {
		return nil, engine.NewCommandError(err)
	}
	return ret, nil
}

func (l *EngineLedger) RevertTransaction(ctx context.Context, parameters command.Parameters, id *big.Int, force bool) (*ledger.Transaction, error) {
	ret, err := l.Commander.RevertTransaction(ctx, parameters, id, force)
	if err != nil {
		return nil, engine.NewCommandError(err)
	}
	return ret, nil
}

func (l *EngineLedger) SaveMeta(ctx context.Context, parameters command.Parameters, targetType string, targetID any, m metadata.Metadata) error {
	return engine.NewCommandError(l.Commander.SaveMeta(ctx, parameters, targetType, targetID, m))
}

func (l *EngineLedger) DeleteMetadata(ctx context.Context, parameters command.Parameters, targetType string, targetID any, key string) error {
	return engine.NewCommandError(l.Commander.DeleteMetadata(ctx, parameters, targetType, targetID, key))
}
