// Package httpsim serves the real HTTP routers (api.NewRouter, v1, v2) over a
// recording fake backend, without sockets.
package httpsim

import (
	"context"
	"fmt"
	"math/big"
	"net/http"
	"net/http/httptest"
	"strings"
	"sync"

	ledger "github.com/formancehq/ledger/internal"
	"github.com/formancehq/ledger/internal/api"
	"github.com/formancehq/ledger/internal/api/backend"
	"github.com/formancehq/ledger/internal/engine"
	"github.com/formancehq/ledger/internal/engine/command"
	"github.com/formancehq/ledger/internal/machine"
	"github.com/formancehq/ledger/internal/opentelemetry/metrics"
	"github.com/formancehq/ledger/internal/storage/driver"
	"github.com/formancehq/ledger/internal/storage/ledgerstore"
	"github.com/formancehq/ledger/internal/storage/sqlutils"
	"github.com/formancehq/ledger/internal/storage/systemstore"
	sharedapi "github.com/formancehq/stack/libs/go-libs/api"
	"github.com/formancehq/stack/libs/go-libs/auth"
	"github.com/formancehq/stack/libs/go-libs/health"
	"github.com/formancehq/stack/libs/go-libs/logging"
	"github.com/formancehq/stack/libs/go-libs/metadata"
	"github.com/formancehq/stack/libs/go-libs/migrations"
	"github.com/go-chi/chi/v5"
)

// Call is one write that reached the backend.
type Call struct {
	Kind       string // create | revert | save_meta | delete_meta
	Ledger     string
	Params     command.Parameters
	Script     ledger.RunScript
	TxID       *big.Int
	Force      bool
	TargetType string
	TargetID   any
	Meta       metadata.Metadata
	Key        string
	Failed     string // error class the fake answered with ("" = success)
}

// FakeLedger records writes and answers them from a failure plan.
type FakeLedger struct {
	mu       sync.Mutex
	Name     string
	Calls    []Call
	Reads    int
	Fail     func(n int, kind string) string // error class for the n-th write (0-based), "" = succeed
	FailCall func(c Call) string             // alternative plan deciding from the call itself
	NextTx   int64
}

func (f *FakeLedger) record(c Call) (string, int64) {
	f.mu.Lock()
	defer f.mu.Unlock()
	c.Ledger = f.Name
	n := len(f.Calls)
	if f.Fail != nil {
		c.Failed = f.Fail(n, c.Kind)
	}
	if f.FailCall != nil {
		c.Failed = f.FailCall(c)
	}
	f.Calls = append(f.Calls, c)
	id := f.NextTx
	if c.Failed == "" && (c.Kind == "create" || c.Kind == "revert") {
		f.NextTx++
	}
	return c.Failed, id
}

// ErrFor builds the error a real engine.Ledger would return for a class.
func ErrFor(class string) error {
	switch class {
	case "":
		return nil
	case "INSUFFICIENT_FUND":
		return engine.NewCommandError(command.NewErrMachine(machine.NewErrInsufficientFund("no more fund to withdraw")))
	case "VALIDATION":
		return engine.NewCommandError(command.NewErrConflict())
	case "COMPILATION_FAILED":
		return engine.NewCommandError(command.NewErrCompilationFailed(fmt.Errorf("mismatched input")))
	case "NO_POSTINGS":
		return engine.NewCommandError(command.NewErrNoPostings())
	case "METADATA_OVERRIDE":
		return engine.NewCommandError(command.NewErrMachine(machine.NewErrMetadataOverride("k")))
	case "NOT_FOUND":
		return engine.NewCommandError(command.NewErrRevertTransactionNotFound())
	case "PANIC":
		// the ledger underneath blows up (a nil map, a failed assertion): not an error value at all
		panic("injected panic under a ledger call")
	case "META_NOT_FOUND":
		return engine.NewCommandError(errMetaNotFound{})
	default:
		return fmt.Errorf("internal failure")
	}
}

type errMetaNotFound struct{}

func (errMetaNotFound) Error() string { return "transaction not found" }

func (f *FakeLedger) CreateTransaction(ctx context.Context, p command.Parameters, data ledger.RunScript) (*ledger.Transaction, error) {
	fail, id := f.record(Call{Kind: "create", Params: p, Script: data})
	if fail != "" {
		return nil, ErrFor(fail)
	}
	tx := ledger.NewTransaction().WithIDUint64(uint64(id)).WithMetadata(data.Metadata).WithReference(data.Reference)
	return tx, nil
}

func (f *FakeLedger) RevertTransaction(ctx context.Context, p command.Parameters, id *big.Int, force bool) (*ledger.Transaction, error) {
	fail, nid := f.record(Call{Kind: "revert", Params: p, TxID: id, Force: force})
	if fail != "" {
		return nil, ErrFor(fail)
	}
	return ledger.NewTransaction().WithIDUint64(uint64(nid)), nil
}

func (f *FakeLedger) SaveMeta(ctx context.Context, p command.Parameters, targetType string, targetID any, m metadata.Metadata) error {
	fail, _ := f.record(Call{Kind: "save_meta", Params: p, TargetType: targetType, TargetID: targetID, Meta: m})
	return ErrFor(fail)
}

func (f *FakeLedger) DeleteMetadata(ctx context.Context, p command.Parameters, targetType string, targetID any, key string) error {
	fail, _ := f.record(Call{Kind: "delete_meta", Params: p, TargetType: targetType, TargetID: targetID, Key: key})
	return ErrFor(fail)
}

func (f *FakeLedger) read() { f.mu.Lock(); f.Reads++; f.mu.Unlock() }

func (f *FakeLedger) GetAccountWithVolumes(ctx context.Context, q ledgerstore.GetAccountQuery) (*ledger.ExpandedAccount, error) {
	f.read()
	a := ledger.NewExpandedAccount(q.Addr)
	return &a, nil
}
func (f *FakeLedger) GetAccountsWithVolumes(ctx context.Context, q ledgerstore.GetAccountsQuery) (*sharedapi.Cursor[ledger.ExpandedAccount], error) {
	f.read()
	return &sharedapi.Cursor[ledger.ExpandedAccount]{Data: []ledger.ExpandedAccount{}}, nil
}
func (f *FakeLedger) CountAccounts(ctx context.Context, q ledgerstore.GetAccountsQuery) (int, error) {
	f.read()
	return 0, nil
}
func (f *FakeLedger) GetAggregatedBalances(ctx context.Context, q ledgerstore.GetAggregatedBalanceQuery) (ledger.BalancesByAssets, error) {
	f.read()
	return ledger.BalancesByAssets{}, nil
}
func (f *FakeLedger) GetMigrationsInfo(ctx context.Context) ([]migrations.Info, error) {
	f.read()
	return nil, nil
}
func (f *FakeLedger) Stats(ctx context.Context) (engine.Stats, error) {
	f.read()
	return engine.Stats{}, nil
}
func (f *FakeLedger) GetLogs(ctx context.Context, q ledgerstore.GetLogsQuery) (*sharedapi.Cursor[ledger.ChainedLog], error) {
	f.read()
	return &sharedapi.Cursor[ledger.ChainedLog]{Data: []ledger.ChainedLog{}}, nil
}
func (f *FakeLedger) CountTransactions(ctx context.Context, q ledgerstore.GetTransactionsQuery) (int, error) {
	f.read()
	return 0, nil
}
func (f *FakeLedger) GetTransactions(ctx context.Context, q ledgerstore.GetTransactionsQuery) (*sharedapi.Cursor[ledger.ExpandedTransaction], error) {
	f.read()
	return &sharedapi.Cursor[ledger.ExpandedTransaction]{Data: []ledger.ExpandedTransaction{}}, nil
}
func (f *FakeLedger) GetTransactionWithVolumes(ctx context.Context, q ledgerstore.GetTransactionQuery) (*ledger.ExpandedTransaction, error) {
	f.read()
	return &ledger.ExpandedTransaction{Transaction: *ledger.NewTransaction().WithID(q.ID)}, nil
}
func (f *FakeLedger) IsDatabaseUpToDate(ctx context.Context) (bool, error) { return true, nil }

var _ backend.Ledger = (*FakeLedger)(nil)

// FakeBackend hands out one FakeLedger per name.
type FakeBackend struct {
	mu       sync.Mutex
	Ledgers  map[string]*FakeLedger
	Created  []string
	Override func(name string) backend.Ledger // optional: serve another backend.Ledger
	Fail     func(n int, kind string) string
	// Missing, when set, tells which ledger names do not exist until CreateLedger has been called for them
	// (GetLedger and GetLedgerEngine answer "not found" before that).
	Missing func(name string) bool
}

func (b *FakeBackend) missing(name string) bool {
	if b.Missing == nil || !b.Missing(name) {
		return false
	}
	b.mu.Lock()
	defer b.mu.Unlock()
	for _, c := range b.Created {
		if c == name {
			return false
		}
	}
	return true
}

func NewFakeBackend() *FakeBackend { return &FakeBackend{Ledgers: map[string]*FakeLedger{}} }

func (b *FakeBackend) ledger(name string) *FakeLedger {
	b.mu.Lock()
	defer b.mu.Unlock()
	l, ok := b.Ledgers[name]
	if !ok {
		l = &FakeLedger{Name: name, Fail: b.Fail}
		b.Ledgers[name] = l
	}
	return l
}

func (b *FakeBackend) GetLedgerEngine(ctx context.Context, name string) (backend.Ledger, error) {
	if b.missing(name) {
		return nil, sqlutils.ErrNotFound
	}
	if b.Override != nil {
		if l := b.Override(name); l != nil {
			return l, nil
		}
	}
	return b.ledger(name), nil
}
func (b *FakeBackend) GetLedger(ctx context.Context, name string) (*systemstore.Ledger, error) {
	if b.missing(name) {
		return nil, sqlutils.ErrNotFound
	}
	return &systemstore.Ledger{Name: name, Bucket: name}, nil
}
func (b *FakeBackend) ListLedgers(ctx context.Context, q systemstore.ListLedgersQuery) (*sharedapi.Cursor[systemstore.Ledger], error) {
	return &sharedapi.Cursor[systemstore.Ledger]{Data: []systemstore.Ledger{}}, nil
}
func (b *FakeBackend) CreateLedger(ctx context.Context, name string, configuration driver.LedgerConfiguration) error {
	b.mu.Lock()
	b.Created = append(b.Created, name)
	b.mu.Unlock()
	return nil
}
func (b *FakeBackend) GetVersion() string { return "verif" }

// Writes returns every write call received, over all ledgers, in order of ledger name then arrival.
func (b *FakeBackend) Writes() []Call {
	b.mu.Lock()
	defer b.mu.Unlock()
	var out []Call
	for _, l := range b.Ledgers {
		l.mu.Lock()
		out = append(out, l.Calls...)
		l.mu.Unlock()
	}
	return out
}

var _ backend.Backend = (*FakeBackend)(nil)

type nopLogger struct{}

func (nopLogger) Debugf(string, ...any)                        {}
func (nopLogger) Infof(string, ...any)                         {}
func (nopLogger) Errorf(string, ...any)                        {}
func (nopLogger) Debug(...any)                                 {}
func (nopLogger) Info(...any)                                  {}
func (nopLogger) Error(...any)                                 {}
func (l nopLogger) WithFields(map[string]any) logging.Logger   { return l }
func (l nopLogger) WithField(string, any) logging.Logger       { return l }
func (l nopLogger) WithContext(context.Context) logging.Logger { return l }

// NewRouter builds the real top-level router over b.
func NewRouter(b backend.Backend, readOnly bool) chi.Router {
	return api.NewRouter(b, health.NewHealthController(nil), metrics.NewNoOpRegistry(), auth.NewNoAuth(), readOnly)
}

// Serve sends one request through the router and returns the recorder.
func Serve(router http.Handler, method, target string, header map[string]string, body string) *httptest.ResponseRecorder {
	return ServeCtx(context.Background(), router, method, target, header, body)
}

// NewRequest builds a request like Serve does (any method text, any target the URL parser takes).
func NewRequest(method, target string) *http.Request {
	req := httptest.NewRequest("GET", "http://ledger.test/", nil)
	req.Method = method
	if u, err := req.URL.Parse(target); err == nil {
		req.URL = u
		req.RequestURI = u.RequestURI()
	}
	return req.WithContext(logging.ContextWithLogger(req.Context(), nopLogger{}))
}

// ServeCtx is Serve with a caller-supplied context (e.g. one that carries a hookctx target).
func ServeCtx(ctx context.Context, router http.Handler, method, target string, header map[string]string, body string) *httptest.ResponseRecorder {
	req := httptest.NewRequest("GET", "http://ledger.test/", strings.NewReader(body)).WithContext(ctx)
	req.Method = method
	u, err := req.URL.Parse(target)
	if err == nil {
		req.URL = u
		req.RequestURI = u.RequestURI()
	}
	for k, v := range header {
		req.Header.Set(k, v)
	}
	req = req.WithContext(logging.ContextWithLogger(req.Context(), nopLogger{}))
	rec := httptest.NewRecorder()
	router.ServeHTTP(rec, req)
	return rec
}

// Routes lists every registered (method, pattern) of a router.
func Routes(r chi.Router) [][2]string {
	var out [][2]string
	_ = chi.Walk(r, func(method, route string, handler http.Handler, middlewares ...func(http.Handler) http.Handler) error {
		out = append(out, [2]string{method, route})
		return nil
	})
	return out
}
