package httpsim

import (
	"context"

	ledger "github.com/formancehq/ledger/internal"
	"github.com/formancehq/ledger/internal/engine"
	"github.com/formancehq/ledger/internal/storage/ledgerstore"
	sharedapi "github.com/formancehq/stack/libs/go-libs/api"
	"github.com/formancehq/stack/libs/go-libs/migrations"
)

// StoreLedger answers reads from a real ledgerstore.Store (exactly like
// engine.Ledger does) and records writes like FakeLedger.
type StoreLedger struct {
	*FakeLedger
	Store *ledgerstore.Store
}

func (l *StoreLedger) GetAccountWithVolumes(ctx context.Context, q ledgerstore.GetAccountQuery) (*ledger.ExpandedAccount, error) {
	return l.Store.GetAccountWithVolumes(ctx, q)
}
func (l *StoreLedger) GetAccountsWithVolumes(ctx context.Context, q ledgerstore.GetAccountsQuery) (*sharedapi.Cursor[ledger.ExpandedAccount], error) {
	return l.Store.GetAccountsWithVolumes(ctx, q)
}
func (l *StoreLedger) CountAccounts(ctx context.Context, q ledgerstore.GetAccountsQuery) (int, error) {
	return l.Store.CountAccounts(ctx, q)
}
func (l *StoreLedger) GetAggregatedBalances(ctx context.Context, q ledgerstore.GetAggregatedBalanceQuery) (ledger.BalancesByAssets, error) {
	return l.Store.GetAggregatedBalances(ctx, q)
}
func (l *StoreLedger) GetMigrationsInfo(ctx context.Context) ([]migrations.Info, error) {
	return nil, nil
}
func (l *StoreLedger) Stats(ctx context.Context) (engine.Stats, error) { return engine.Stats{}, nil }
func (l *StoreLedger) GetLogs(ctx context.Context, q ledgerstore.GetLogsQuery) (*sharedapi.Cursor[ledger.ChainedLog], error) {
	return l.Store.GetLogs(ctx, q)
}
func (l *StoreLedger) CountTransactions(ctx context.Context, q ledgerstore.GetTransactionsQuery) (int, error) {
	return l.Store.CountTransactions(ctx, q)
}
func (l *StoreLedger) GetTransactions(ctx context.Context, q ledgerstore.GetTransactionsQuery) (*sharedapi.Cursor[ledger.ExpandedTransaction], error) {
	return l.Store.GetTransactions(ctx, q)
}
func (l *StoreLedger) GetTransactionWithVolumes(ctx context.Context, q ledgerstore.GetTransactionQuery) (*ledger.ExpandedTransaction, error) {
	return l.Store.GetTransactionWithVolumes(ctx, q)
}
