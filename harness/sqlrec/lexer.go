// Package sqlrec holds a recording database/sql driver, a PostgreSQL lexer
// (trusted base) and a small result engine for the pagination checks.
package sqlrec

import (
	"fmt"
	"strings"
	"unicode"
)

type TokKind int

const (
	TIdent TokKind = iota // keyword or unquoted identifier
	TQuotedIdent
	TString
	TNumber
	TOp
	TParam // $1
)

type Token struct {
	Kind TokKind
	Text string // for TString: the decoded value
	Raw  string
}

// Lex tokenizes SQL text the way PostgreSQL does with
// standard_conforming_strings=on (the default, never changed by the ledger).
func Lex(sql string) ([]Token, error) {
	var out []Token
	rs := []rune(sql)
	i := 0
	n := len(rs)
	isIdentStart := func(r rune) bool { return r == '_' || unicode.IsLetter(r) || r > 127 }
	isIdentPart := func(r rune) bool { return isIdentStart(r) || unicode.IsDigit(r) || r == '$' }
	for i < n {
		r := rs[i]
		switch {
		case unicode.IsSpace(r):
			i++
		case r == '-' && i+1 < n && rs[i+1] == '-':
			for i < n && rs[i] != '\n' {
				i++
			}
		case r == '/' && i+1 < n && rs[i+1] == '*':
			depth := 1
			i += 2
			for i < n && depth > 0 {
				if rs[i] == '/' && i+1 < n && rs[i+1] == '*' {
					depth++
					i += 2
				} else if rs[i] == '*' && i+1 < n && rs[i+1] == '/' {
					depth--
					i += 2
				} else {
					i++
				}
			}
			if depth > 0 {
				return out, fmt.Errorf("unterminated comment")
			}
		case r == '\'' || ((r == 'E' || r == 'e') && i+1 < n && rs[i+1] == '\''):
			escapes := false
			start := i
			if r != '\'' {
				escapes = true
				i++
			}
			i++ // opening quote
			var sb strings.Builder
			closed := false
			for i < n {
				if escapes && rs[i] == '\\' && i+1 < n {
					sb.WriteRune(rs[i+1])
					i += 2
					continue
				}
				if rs[i] == '\'' {
					if i+1 < n && rs[i+1] == '\'' {
						sb.WriteRune('\'')
						i += 2
						continue
					}
					closed = true
					i++
					break
				}
				sb.WriteRune(rs[i])
				i++
			}
			if !closed {
				return out, fmt.Errorf("unterminated string constant starting at %d", start)
			}
			out = append(out, Token{Kind: TString, Text: sb.String(), Raw: string(rs[start:i])})
		case r == '"':
			start := i
			i++
			var sb strings.Builder
			closed := false
			for i < n {
				if rs[i] == '"' {
					if i+1 < n && rs[i+1] == '"' {
						sb.WriteRune('"')
						i += 2
						continue
					}
					closed = true
					i++
					break
				}
				sb.WriteRune(rs[i])
				i++
			}
			if !closed {
				return out, fmt.Errorf("unterminated quoted identifier starting at %d", start)
			}
			out = append(out, Token{Kind: TQuotedIdent, Text: sb.String(), Raw: string(rs[start:i])})
		case r == '$' && i+1 < n && unicode.IsDigit(rs[i+1]):
			start := i
			i++
			for i < n && unicode.IsDigit(rs[i]) {
				i++
			}
			out = append(out, Token{Kind: TParam, Text: string(rs[start:i]), Raw: string(rs[start:i])})
		case r == '$':
			// dollar-quoted string $tag$ ... $tag$
			j := i + 1
			for j < n && (isIdentPart(rs[j]) && rs[j] != '$') {
				j++
			}
			if j < n && rs[j] == '$' {
				tag := string(rs[i : j+1])
				rest := string(rs[j+1:])
				end := strings.Index(rest, tag)
				if end < 0 {
					return out, fmt.Errorf("unterminated dollar-quoted string %s", tag)
				}
				body := rest[:end]
				raw := tag + body + tag
				out = append(out, Token{Kind: TString, Text: body, Raw: raw})
				i = j + 1 + len([]rune(body)) + len([]rune(tag))
			} else {
				out = append(out, Token{Kind: TOp, Text: "$", Raw: "$"})
				i++
			}
		case unicode.IsDigit(r) || (r == '.' && i+1 < n && unicode.IsDigit(rs[i+1])):
			start := i
			for i < n && (unicode.IsDigit(rs[i]) || rs[i] == '.') {
				i++
			}
			if i < n && (rs[i] == 'e' || rs[i] == 'E') {
				j := i + 1
				if j < n && (rs[j] == '+' || rs[j] == '-') {
					j++
				}
				if j < n && unicode.IsDigit(rs[j]) {
					i = j
					for i < n && unicode.IsDigit(rs[i]) {
						i++
					}
				}
			}
			out = append(out, Token{Kind: TNumber, Text: string(rs[start:i]), Raw: string(rs[start:i])})
		case isIdentStart(r):
			start := i
			for i < n && isIdentPart(rs[i]) {
				i++
			}
			out = append(out, Token{Kind: TIdent, Text: strings.ToLower(string(rs[start:i])), Raw: string(rs[start:i])})
		case r == 0:
			return out, fmt.Errorf("NUL byte in SQL text")
		default:
			// operators and punctuation; multi-character operators are kept as single characters except the common pairs
			two := ""
			if i+1 < n {
				two = string(rs[i : i+2])
			}
			switch two {
			case "::", "<=", ">=", "<>", "!=", "@>", "<@", "@@", "->", "||":
				if two == "->" && i+2 < n && rs[i+2] == '>' {
					out = append(out, Token{Kind: TOp, Text: "->>", Raw: "->>"})
					i += 3
				} else {
					out = append(out, Token{Kind: TOp, Text: two, Raw: two})
					i += 2
				}
			default:
				out = append(out, Token{Kind: TOp, Text: string(r), Raw: string(r)})
				i++
			}
		}
	}
	return out, nil
}

// Skeleton renders the token sequence with every string constant replaced by
// 'S' and every number by N: the structure of the statement.
func Skeleton(sql string) (string, error) {
	toks, err := Lex(sql)
	if err != nil {
		return "", err
	}
	var sb strings.Builder
	for _, t := range toks {
		switch t.Kind {
		case TString:
			sb.WriteString("'S' ")
		case TNumber:
			sb.WriteString("N ")
		case TQuotedIdent:
			sb.WriteString(`"` + t.Text + `" `)
		default:
			sb.WriteString(t.Text + " ")
		}
	}
	return sb.String(), nil
}

// Strings returns the decoded string constants of a statement.
func Strings(sql string) ([]string, error) {
	toks, err := Lex(sql)
	if err != nil {
		return nil, err
	}
	var out []string
	for _, t := range toks {
		if t.Kind == TString {
			out = append(out, t.Text)
		}
	}
	return out, nil
}
