package sqlrec

import (
	"context"
	"database/sql"
	"database/sql/driver"
	"errors"
	"io"
	"strings"
	"sync"

	"github.com/uptrace/bun"
	"github.com/uptrace/bun/dialect/pgdialect"
)

// Answer computes the result set of a query; nil means "no rows".
type Answer func(sql string) (cols []string, rows [][]driver.Value, err error)

// Recorder is a database/sql driver that stores every statement it receives.
type Recorder struct {
	mu      sync.Mutex
	Queries []string
	Answer  Answer
	// Tx, when set, makes the driver keep what a transaction wrote apart until its COMMIT succeeds, and lets one
	// driver-level step of the transaction fail.
	Tx *TxScript
}

// TxScript follows the driver-level steps of transactions (begin, prepare, exec-row, exec-flush, stmt-close,
// commit, rollback), fails the FailAt-th of them (0-based; negative: none) and keeps the rows of prepared
// statements: Committed holds those whose transaction's COMMIT went through, nothing else.
type TxScript struct {
	mu        sync.Mutex
	FailAt    int
	Steps     []string
	pending   [][]driver.Value
	Committed [][]driver.Value
}

// ErrInjected is what a failing step answers.
var ErrInjected = errors.New("injected database failure (connection lost)")

func (t *TxScript) step(name string) error {
	if t == nil {
		return nil
	}
	t.mu.Lock()
	defer t.mu.Unlock()
	n := len(t.Steps)
	t.Steps = append(t.Steps, name)
	if n == t.FailAt {
		t.Steps[n] = name + " FAILS"
		return ErrInjected
	}
	return nil
}

func (r *Recorder) record(q string) {
	r.mu.Lock()
	r.Queries = append(r.Queries, q)
	r.mu.Unlock()
}

// Reset forgets the recorded statements.
func (r *Recorder) Reset() { r.mu.Lock(); r.Queries = nil; r.mu.Unlock() }

// Statements returns a copy of what was recorded.
func (r *Recorder) Statements() []string {
	r.mu.Lock()
	defer r.mu.Unlock()
	return append([]string(nil), r.Queries...)
}

func (r *Recorder) Connect(context.Context) (driver.Conn, error) { return &conn{r: r}, nil }
func (r *Recorder) Driver() driver.Driver                        { return drv{r} }

type drv struct{ r *Recorder }

func (d drv) Open(string) (driver.Conn, error) { return &conn{r: d.r}, nil }

type conn struct{ r *Recorder }

func (c *conn) Prepare(q string) (driver.Stmt, error) {
	if err := c.r.Tx.step("prepare"); err != nil {
		return nil, err
	}
	return &stmt{c: c, q: q}, nil
}
func (c *conn) Close() error              { return nil }
func (c *conn) Begin() (driver.Tx, error) { return c.BeginTx(context.Background(), driver.TxOptions{}) }
func (c *conn) BeginTx(context.Context, driver.TxOptions) (driver.Tx, error) {
	if err := c.r.Tx.step("begin"); err != nil {
		return nil, err
	}
	return tx{c.r.Tx}, nil
}
func (c *conn) Ping(context.Context) error { return nil }

func (c *conn) QueryContext(ctx context.Context, q string, args []driver.NamedValue) (driver.Rows, error) {
	c.r.record(q)
	return c.r.answer(q)
}

func (c *conn) ExecContext(ctx context.Context, q string, args []driver.NamedValue) (driver.Result, error) {
	c.r.record(q)
	return driver.RowsAffected(0), nil
}

func (r *Recorder) answer(q string) (driver.Rows, error) {
	if r.Answer != nil {
		cols, data, err := r.Answer(q)
		if err != nil {
			return nil, err
		}
		if cols != nil {
			return &rows{cols: cols, data: data}, nil
		}
	}
	if strings.Contains(strings.ToLower(q), "count(*)") {
		return &rows{cols: []string{"count"}, data: [][]driver.Value{{int64(0)}}}, nil
	}
	return &rows{cols: []string{"x"}}, nil
}

type tx struct{ t *TxScript }

func (x tx) Commit() error {
	if x.t == nil {
		return nil
	}
	err := x.t.step("commit")
	x.t.mu.Lock()
	defer x.t.mu.Unlock()
	if err == nil {
		x.t.Committed = append(x.t.Committed, x.t.pending...)
	}
	x.t.pending = nil // a COMMIT that failed has committed nothing
	return err
}

func (x tx) Rollback() error {
	if x.t == nil {
		return nil
	}
	_ = x.t.step("rollback")
	x.t.mu.Lock()
	x.t.pending = nil
	x.t.mu.Unlock()
	return nil
}

type stmt struct {
	c *conn
	q string
}

func (s *stmt) Close() error  { return s.c.r.Tx.step("stmt-close") }
func (s *stmt) NumInput() int { return -1 }
func (s *stmt) Exec(args []driver.Value) (driver.Result, error) {
	s.c.r.record(s.q)
	if t := s.c.r.Tx; t != nil {
		name := "exec-flush"
		if len(args) > 0 {
			name = "exec-row"
		}
		if err := t.step(name); err != nil {
			return nil, err
		}
		if len(args) > 0 {
			t.mu.Lock()
			t.pending = append(t.pending, append([]driver.Value(nil), args...))
			t.mu.Unlock()
		}
	}
	return driver.RowsAffected(0), nil
}
func (s *stmt) Query(args []driver.Value) (driver.Rows, error) {
	s.c.r.record(s.q)
	return s.c.r.answer(s.q)
}

type rows struct {
	cols []string
	data [][]driver.Value
	i    int
}

func (r *rows) Columns() []string { return r.cols }
func (r *rows) Close() error      { return nil }
func (r *rows) Next(dest []driver.Value) error {
	if r.i >= len(r.data) {
		return io.EOF
	}
	copy(dest, r.data[r.i])
	r.i++
	return nil
}

// NewDB returns a bun database (PostgreSQL dialect) that talks to rec.
func NewDB(rec *Recorder) *bun.DB {
	return bun.NewDB(sql.OpenDB(rec), pgdialect.New())
}
