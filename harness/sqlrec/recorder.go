package sqlrec

import (
	"context"
	"database/sql"
	"database/sql/driver"
	"io"
	"strings"
	"sync"

	"github.com/uptrace/bun"
	"github.com/uptrace/bun/dialect/pgdialect"
)

// Answer computes the result set of a query; nil means "no rows".
type Answer func(sql string) (cols []string, rows [][]driver.Value, err error)

// Recorder is a database/sql driver that stores every statement it receives.
type Recorder struct {
	mu      sync.Mutex
	Queries []string
	Answer  Answer
}

func (r *Recorder) record(q string) {
	r.mu.Lock()
	r.Queries = append(r.Queries, q)
	r.mu.Unlock()
}

// Reset forgets the recorded statements.
func (r *Recorder) Reset() { r.mu.Lock(); r.Queries = nil; r.mu.Unlock() }

// Statements returns a copy of what was recorded.
func (r *Recorder) Statements() []string {
	r.mu.Lock()
	defer r.mu.Unlock()
	return append([]string(nil), r.Queries...)
}

func (r *Recorder) Connect(context.Context) (driver.Conn, error) { return &conn{r: r}, nil }
func (r *Recorder) Driver() driver.Driver                        { return drv{r} }

type drv struct{ r *Recorder }

func (d drv) Open(string) (driver.Conn, error) { return &conn{r: d.r}, nil }

type conn struct{ r *Recorder }

func (c *conn) Prepare(q string) (driver.Stmt, error) { return &stmt{c: c, q: q}, nil }
func (c *conn) Close() error                          { return nil }
func (c *conn) Begin() (driver.Tx, error)             { return tx{}, nil }
func (c *conn) BeginTx(context.Context, driver.TxOptions) (driver.Tx, error) {
	return tx{}, nil
}
func (c *conn) Ping(context.Context) error { return nil }

func (c *conn) QueryContext(ctx context.Context, q string, args []driver.NamedValue) (driver.Rows, error) {
	c.r.record(q)
	return c.r.answer(q)
}

func (c *conn) ExecContext(ctx context.Context, q string, args []driver.NamedValue) (driver.Result, error) {
	c.r.record(q)
	return driver.RowsAffected(0), nil
}

func (r *Recorder) answer(q string) (driver.Rows, error) {
	if r.Answer != nil {
		cols, data, err := r.Answer(q)
		if err != nil {
			return nil, err
		}
		if cols != nil {
			return &rows{cols: cols, data: data}, nil
		}
	}
	if strings.Contains(strings.ToLower(q), "count(*)") {
		return &rows{cols: []string{"count"}, data: [][]driver.Value{{int64(0)}}}, nil
	}
	return &rows{cols: []string{"x"}}, nil
}

type tx struct{}

func (tx) Commit() error   { return nil }
func (tx) Rollback() error { return nil }

type stmt struct {
	c *conn
	q string
}

func (s *stmt) Close() error  { return nil }
func (s *stmt) NumInput() int { return -1 }
func (s *stmt) Exec(args []driver.Value) (driver.Result, error) {
	s.c.r.record(s.q)
	return driver.RowsAffected(0), nil
}
func (s *stmt) Query(args []driver.Value) (driver.Rows, error) {
	s.c.r.record(s.q)
	return s.c.r.answer(s.q)
}

type rows struct {
	cols []string
	data [][]driver.Value
	i    int
}

func (r *rows) Columns() []string { return r.cols }
func (r *rows) Close() error      { return nil }
func (r *rows) Next(dest []driver.Value) error {
	if r.i >= len(r.data) {
		return io.EOF
	}
	copy(dest, r.data[r.i])
	r.i++
	return nil
}

// NewDB returns a bun database (PostgreSQL dialect) that talks to rec.
func NewDB(rec *Recorder) *bun.DB {
	return bun.NewDB(sql.OpenDB(rec), pgdialect.New())
}
