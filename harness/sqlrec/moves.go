package sqlrec

import (
	"database/sql/driver"
	"encoding/json"
	"fmt"
	"math/big"
	"regexp"
	"sort"
	"strings"
	"time"
)

// Move is one row of the `moves` table as the insert trigger is documented to
// write it: one per posting side, with the running (insertion-ordered) volumes
// of its account and asset after the move.
type Move struct {
	Ledger        string
	Seq           int
	Account       string
	Asset         string
	InsertionDate time.Time // date of the log entry
	EffectiveDate time.Time // timestamp of the transaction
	PostInputs    *big.Int
	PostOutputs   *big.Int
}

// MovesEngine evaluates the aggregated-balances statement built by
// ledgerstore.GetAggregatedBalances over an in-memory moves table:
//
//	WITH "moves" AS (SELECT distinct on (moves.account_address, moves.asset) moves.* FROM "moves"
//	                 WHERE <boolean expression> ORDER BY "account_address", "asset", "moves"."seq" desc),
//	     "data" AS (SELECT volumes_to_jsonb(... sum(inputs), sum(outputs) ...) FROM moves GROUP BY "moves"."asset")
//	SELECT aggregate_objects(data.aggregated) as aggregated FROM data
//
// Only the WHERE expression is interpreted (ledger, date bound on insertion_date or
// effective_date, address patterns, and/or/not); the rest of the shape is checked textually.
type MovesEngine struct {
	Moves     []Move
	Unhandled []string
}

type boolExpr func(Move) bool

type mparser struct {
	toks []Token
	pos  int
	err  string
}

func (p *mparser) peek() *Token {
	if p.pos < len(p.toks) {
		return &p.toks[p.pos]
	}
	return nil
}

func (p *mparser) isOp(s string) bool {
	t := p.peek()
	return t != nil && t.Kind == TOp && t.Text == s
}

func (p *mparser) isKw(s string) bool {
	t := p.peek()
	return t != nil && t.Kind == TIdent && t.Text == s
}

func (p *mparser) fail(format string, args ...any) boolExpr {
	if p.err == "" {
		p.err = fmt.Sprintf(format, args...)
	}
	return func(Move) bool { return false }
}

func (p *mparser) or() boolExpr {
	l := p.and()
	for p.isKw("or") {
		p.pos++
		r := p.and()
		a, b := l, r
		l = func(m Move) bool { return a(m) || b(m) }
	}
	return l
}

func (p *mparser) and() boolExpr {
	l := p.not()
	for p.isKw("and") {
		p.pos++
		r := p.not()
		a, b := l, r
		l = func(m Move) bool { return a(m) && b(m) }
	}
	return l
}

func (p *mparser) not() boolExpr {
	if p.isKw("not") {
		p.pos++
		e := p.not()
		return func(m Move) bool { return !e(m) }
	}
	return p.atom()
}

var jsonpathSeg = regexp.MustCompile(`^\$\[(\d+)\] == "([^"]*)"$`)

func (p *mparser) ident() string {
	t := p.peek()
	if t == nil || (t.Kind != TIdent && t.Kind != TQuotedIdent) {
		return ""
	}
	p.pos++
	name := lowerIdent(*t)
	if p.isOp(".") {
		p.pos++
		if t2 := p.peek(); t2 != nil && (t2.Kind == TIdent || t2.Kind == TQuotedIdent) {
			p.pos++
			name = lowerIdent(*t2)
		}
	}
	return name
}

func (p *mparser) atom() boolExpr {
	if p.isOp("(") {
		p.pos++
		e := p.or()
		if !p.isOp(")") {
			return p.fail("missing )")
		}
		p.pos++
		return e
	}
	// 1 = 1
	if t := p.peek(); t != nil && t.Kind == TNumber {
		if p.pos+2 < len(p.toks) && p.toks[p.pos+1].Text == "=" && p.toks[p.pos+2].Kind == TNumber {
			same := p.toks[p.pos].Text == p.toks[p.pos+2].Text
			p.pos += 3
			return func(Move) bool { return same }
		}
		return p.fail("unexpected number")
	}
	if p.isKw("jsonb_array_length") {
		p.pos++
		if !p.isOp("(") {
			return p.fail("jsonb_array_length without (")
		}
		p.pos++
		col := p.ident()
		if !p.isOp(")") || col != "account_address_array" {
			return p.fail("jsonb_array_length of %q", col)
		}
		p.pos++
		if !p.isOp("=") {
			return p.fail("jsonb_array_length without =")
		}
		p.pos++
		t := p.peek()
		if t == nil || t.Kind != TNumber {
			return p.fail("jsonb_array_length = ?")
		}
		p.pos++
		var n int
		fmt.Sscan(t.Text, &n)
		return func(m Move) bool { return len(strings.Split(m.Account, ":")) == n }
	}
	col := p.ident()
	if col == "" {
		return p.fail("unexpected token %v", p.peek())
	}
	t := p.peek()
	if t == nil || t.Kind != TOp {
		return p.fail("no operator after %s", col)
	}
	op := t.Text
	p.pos++
	switch {
	case op == "@@" && col == "account_address_array":
		if !p.isOp("(") {
			return p.fail("@@ without (")
		}
		p.pos++
		v := p.peek()
		if v == nil || v.Kind != TString {
			return p.fail("@@ without a jsonpath constant")
		}
		p.pos++
		if !p.isOp(")") {
			return p.fail("@@ missing )")
		}
		p.pos++
		if !p.isOp("::") {
			return p.fail("@@ missing cast")
		}
		p.pos++
		p.pos++ // jsonpath
		m := jsonpathSeg.FindStringSubmatch(v.Text)
		if m == nil {
			return p.fail("jsonpath %q", v.Text)
		}
		var idx int
		fmt.Sscan(m[1], &idx)
		seg := m[2]
		return func(mv Move) bool {
			parts := strings.Split(mv.Account, ":")
			return idx < len(parts) && parts[idx] == seg
		}
	case op == "=" && (col == "ledger" || col == "account_address"):
		v := p.peek()
		if v == nil || v.Kind != TString {
			return p.fail("%s = non-constant", col)
		}
		p.pos++
		want := v.Text
		if col == "ledger" {
			return func(m Move) bool { return m.Ledger == want }
		}
		return func(m Move) bool { return m.Account == want }
	case (op == "<=" || op == "<") && (col == "insertion_date" || col == "effective_date"):
		v := p.peek()
		if v == nil || v.Kind != TString {
			return p.fail("%s bound is not a constant", col)
		}
		p.pos++
		ts, err := time.Parse(time.RFC3339Nano, v.Text)
		if err != nil {
			return p.fail("time bound %q", v.Text)
		}
		strict := op == "<"
		return func(m Move) bool {
			d := m.InsertionDate
			if col == "effective_date" {
				d = m.EffectiveDate
			}
			if strict {
				return d.Before(ts)
			}
			return !d.After(ts)
		}
	}
	return p.fail("predicate %s %s not understood", col, op)
}

func normSpace(toks []Token) string { return textOf(toks) }

// Answer implements sqlrec.Answer for the aggregated-balances statement.
func (e *MovesEngine) Answer(sql string) ([]string, [][]driver.Value, error) {
	bad := func(format string, args ...any) ([]string, [][]driver.Value, error) {
		msg := fmt.Sprintf(format, args...) + " :: " + sql
		e.Unhandled = append(e.Unhandled, msg)
		return nil, nil, fmt.Errorf("moves engine: %s", msg)
	}
	toks, err := Lex(sql)
	if err != nil {
		return bad("does not lex: %v", err)
	}
	// WITH "moves" AS ( SELECT distinct on ( ... ) moves . * FROM "moves" WHERE <expr> ORDER BY ... ) , "data" AS ...
	if len(toks) < 10 || toks[0].Text != "with" || lowerIdent(toks[1]) != "moves" {
		return bad("not the aggregated-balances statement")
	}
	// find the parenthesis opening the first CTE and its match
	open := -1
	for i := 2; i < len(toks); i++ {
		if toks[i].Kind == TOp && toks[i].Text == "(" {
			open = i
			break
		}
	}
	if open < 0 {
		return bad("no CTE body")
	}
	depth, closeIdx := 0, -1
	for i := open; i < len(toks); i++ {
		if toks[i].Kind == TOp && toks[i].Text == "(" {
			depth++
		} else if toks[i].Kind == TOp && toks[i].Text == ")" {
			depth--
			if depth == 0 {
				closeIdx = i
				break
			}
		}
	}
	if closeIdx < 0 {
		return bad("unbalanced CTE")
	}
	body := toks[open+1 : closeIdx]
	head := normSpace(body[:min(len(body), 17)])
	if !strings.HasPrefix(head, "select distinct on ( moves . account_address , moves . asset ) moves . * from moves") {
		return bad("unexpected CTE head %q", head)
	}
	where := topLevel(body, 0, "where")
	order := topLevel(body, 0, "order")
	if order < 0 {
		return bad("no ORDER BY in the CTE")
	}
	if got := normSpace(body[order:]); got != "order by account_address , asset , moves . seq desc" {
		return bad("unexpected ORDER BY %q", got)
	}
	if where >= 0 {
		for _, t := range body[where:order] {
			if t.Kind == TIdent && (t.Text == "join" || t.Text == "lateral") {
				return bad("joins are not supported")
			}
		}
	}
	if from := topLevel(body, 0, "from"); from >= 0 {
		end := order
		if where >= 0 {
			end = where
		}
		if end != from+2 {
			return bad("joins are not supported")
		}
	}
	rest := normSpace(toks[closeIdx+1:])
	wantRest := `, data as ( select volumes_to_jsonb ( ( moves . asset , ( sum ( ( moves . post_commit_volumes ) . inputs ) , sum ( ( moves . post_commit_volumes ) . outputs ) ) :: volumes ) ) as aggregated from moves group by moves . asset ) select aggregate_objects ( data . aggregated ) as aggregated from data`
	if rest != wantRest {
		return bad("unexpected tail %q", rest)
	}
	pred := func(Move) bool { return true }
	if where >= 0 {
		p := &mparser{toks: body[where+1 : order]}
		pred = p.or()
		if p.err != "" || p.pos != len(p.toks) {
			return bad("WHERE not understood (%s at token %d)", p.err, p.pos)
		}
	}
	// distinct on (account, asset) ... order by seq desc: the latest matching move of each pair
	type key struct{ acc, asset string }
	latest := map[key]Move{}
	for _, m := range e.Moves {
		if !pred(m) {
			continue
		}
		k := key{m.Account, m.Asset}
		if cur, ok := latest[k]; !ok || m.Seq > cur.Seq {
			latest[k] = m
		}
	}
	type vol struct{ in, out *big.Int }
	agg := map[string]*vol{}
	for _, m := range latest {
		v, ok := agg[m.Asset]
		if !ok {
			v = &vol{new(big.Int), new(big.Int)}
			agg[m.Asset] = v
		}
		v.in.Add(v.in, m.PostInputs)
		v.out.Add(v.out, m.PostOutputs)
	}
	if len(agg) == 0 {
		return []string{"aggregated"}, [][]driver.Value{{nil}}, nil
	}
	assets := make([]string, 0, len(agg))
	for a := range agg {
		assets = append(assets, a)
	}
	sort.Strings(assets)
	out := map[string]map[string]json.Number{}
	for _, a := range assets {
		out[a] = map[string]json.Number{"input": json.Number(agg[a].in.String()), "output": json.Number(agg[a].out.String())}
	}
	b, _ := json.Marshal(out)
	return []string{"aggregated"}, [][]driver.Value{{b}}, nil
}
