package sqlrec

import "testing"

func TestLexer(t *testing.T) {
	cases := []struct {
		sql  string
		skel string
		err  bool
	}{
		{`SELECT * FROM "logs" WHERE (ledger = 'l1') LIMIT 16`, `select * from "logs" where ( ledger = 'S' ) limit N `, false},
		{`select 'it''s', E'a\'b', $x$ q'q $x$, 1.5e3 -- c` + "\n" + `/* a /* b */ c */ from t`, `select 'S' , 'S' , 'S' , N from t `, false},
		{`select 'unterminated`, ``, true},
		{`select 'a' or '1'='1'`, `select 'S' or 'S' = 'S' `, false},
		{`select "a""b", x::jsonpath, a @> '[1]', b->>'k'`, `select "a"b" , x :: jsonpath , a @> 'S' , b ->> 'S' `, false},
		{`select 'a\'; drop table x; --'`, `select 'S' ; drop table x ; `, false},
	}
	for _, c := range cases {
		got, err := Skeleton(c.sql)
		if c.err {
			if err == nil {
				t.Errorf("%q: expected a lexing error, got %q", c.sql, got)
			}
			continue
		}
		if err != nil || got != c.skel {
			t.Errorf("%q:\n got  %q (%v)\n want %q", c.sql, got, err, c.skel)
		}
	}
}
