package sqlrec

import (
	"database/sql/driver"
	"encoding/json"
	"fmt"
	"math/big"
	"sort"
	"strings"
	"time"
)

// Row is one record of an in-memory table; values are what a PostgreSQL
// driver would hand to database/sql (string, int64, []byte, time.Time, nil).
type Row map[string]driver.Value

// Table is an in-memory table owned by a test.
type Table struct {
	Columns []string
	Rows    []Row
}

// Engine answers the narrow SELECT shapes bun emits for the list queries:
//
//	SELECT <cols> FROM "<t>" [WHERE (<c1>) AND (<c2>) ...] ORDER BY <col> [ASC|DESC] [LIMIT n] [OFFSET m]
//	SELECT count(*) FROM (<inner>) data
//
// Conjuncts it understands: ledger predicates, `<col> <op> <integer>` on the
// ordering column, `reference = '<v>'`, `<x>.address = '<v>'` and
// `metadata @> '<json object>'`. Anything else is reported through Unhandled
// (a harness error, never a property violation).
type Engine struct {
	Tables    map[string]*Table
	Ledger    string
	Unhandled []string
	Conjuncts [][]string // per answered list statement: the filter conjuncts it carried (normalised text)
}

func (e *Engine) unhandled(format string, args ...any) ([]string, [][]driver.Value, error) {
	msg := fmt.Sprintf(format, args...)
	e.Unhandled = append(e.Unhandled, msg)
	return nil, nil, fmt.Errorf("sqlrec engine: %s", msg)
}

func lowerIdent(t Token) string {
	if t.Kind == TQuotedIdent {
		return t.Text
	}
	return strings.ToLower(t.Text)
}

// topLevel returns the index of the first keyword kw at parenthesis depth 0, from start.
func topLevel(toks []Token, start int, kws ...string) int {
	depth := 0
	for i := start; i < len(toks); i++ {
		t := toks[i]
		if t.Kind == TOp && t.Text == "(" {
			depth++
		} else if t.Kind == TOp && t.Text == ")" {
			depth--
		} else if depth == 0 && t.Kind == TIdent {
			for _, kw := range kws {
				if t.Text == kw {
					return i
				}
			}
		}
	}
	return -1
}

func textOf(toks []Token) string {
	parts := make([]string, len(toks))
	for i, t := range toks {
		switch t.Kind {
		case TString:
			parts[i] = "'" + t.Text + "'"
		case TQuotedIdent:
			parts[i] = t.Text
		default:
			parts[i] = t.Text
		}
	}
	return strings.Join(parts, " ")
}

func stripParens(toks []Token) []Token {
	for len(toks) >= 2 && toks[0].Kind == TOp && toks[0].Text == "(" && toks[len(toks)-1].Kind == TOp && toks[len(toks)-1].Text == ")" {
		// make sure the outer parentheses match each other
		depth := 0
		ok := true
		for i, t := range toks {
			if t.Kind == TOp && t.Text == "(" {
				depth++
			} else if t.Kind == TOp && t.Text == ")" {
				depth--
				if depth == 0 && i != len(toks)-1 {
					ok = false
					break
				}
			}
		}
		if !ok {
			break
		}
		toks = toks[1 : len(toks)-1]
	}
	return toks
}

func splitAnd(toks []Token) [][]Token {
	var out [][]Token
	depth, start := 0, 0
	for i, t := range toks {
		if t.Kind == TOp && t.Text == "(" {
			depth++
		} else if t.Kind == TOp && t.Text == ")" {
			depth--
		} else if depth == 0 && t.Kind == TIdent && t.Text == "and" {
			out = append(out, toks[start:i])
			start = i + 1
		}
	}
	return append(out, toks[start:])
}

func intOf(t Token) (*big.Int, bool) {
	if t.Kind != TNumber && t.Kind != TString {
		return nil, false
	}
	v, ok := new(big.Int).SetString(t.Text, 10)
	return v, ok
}

func rowInt(v driver.Value) *big.Int {
	switch x := v.(type) {
	case int64:
		return big.NewInt(x)
	case string:
		n, _ := new(big.Int).SetString(x, 10)
		return n
	case []byte:
		n, _ := new(big.Int).SetString(string(x), 10)
		return n
	}
	return nil
}

type pred func(Row) bool

// conjunct turns one WHERE conjunct into a predicate.
func (e *Engine) conjunct(c []Token, filters *[]string) (pred, bool) {
	c = stripParens(c)
	txt := textOf(c)
	// a comparison with the balance an account's latest move left (a scalar sub-select over moves): what it selects
	// is PostgreSQL's business (balance_from_volumes); every row passes here, and the text of the comparison -- its
	// operator and its operand -- is kept as the filter of the statement, so that walks can be asked to keep it
	if len(c) > 4 && c[0].Kind == TOp && c[0].Text == "(" && c[1].Kind == TIdent && c[1].Text == "select" && strings.Contains(txt, "balance_from_volumes") {
		*filters = append(*filters, txt)
		return func(Row) bool { return true }, true
	}
	last := func(t Token) string {
		s := lowerIdent(t)
		return s
	}
	// column reference possibly qualified: a . b
	col := ""
	rest := c
	if len(c) >= 3 && (c[0].Kind == TIdent || c[0].Kind == TQuotedIdent) {
		col = last(c[0])
		rest = c[1:]
		if len(rest) >= 2 && rest[0].Kind == TOp && rest[0].Text == "." && (rest[1].Kind == TIdent || rest[1].Kind == TQuotedIdent) {
			col = last(rest[1])
			rest = rest[2:]
		}
	}
	if col != "" && len(rest) == 2 && rest[0].Kind == TOp {
		op, val := rest[0].Text, rest[1]
		switch {
		case col == "ledger" && op == "=" && val.Kind == TString:
			want := val.Text
			return func(r Row) bool {
				// a table shared by several ledgers carries the ledger of each row; otherwise all rows are the engine's ledger's
				if own, ok := r["ledger"].(string); ok {
					return own == want
				}
				return want == e.Ledger
			}, true
		case col == "idempotency_key" && op == "=" && val.Kind == TString:
			return func(r Row) bool { s, _ := r["idempotency_key"].(string); return s == val.Text }, true
		case col == "reference" && op == "=" && val.Kind == TString:
			*filters = append(*filters, txt)
			return func(r Row) bool { s, _ := r["reference"].(string); return s == val.Text }, true
		case col == "address" && op == "=" && val.Kind == TString:
			*filters = append(*filters, txt)
			return func(r Row) bool { s, _ := r["address"].(string); return s == val.Text }, true
		case col == "id" && op == "=" && (val.Kind == TString || val.Kind == TNumber):
			return func(r Row) bool { return fmt.Sprint(r["id"]) == val.Text }, true
		case op == "<" || op == "<=" || op == ">" || op == ">=":
			n, ok := intOf(val)
			if !ok {
				// point-in-time bounds: compared as instants when the row carries one, otherwise every
				// row of a static collection counts as older than the bound
				if val.Kind == TString && (col == "insertion_date" || col == "timestamp" || col == "date") && (op == "<=" || op == "<") {
					ts, err := time.Parse(time.RFC3339Nano, val.Text)
					return func(r Row) bool {
						d, isTime := r[col].(time.Time)
						if !isTime || err != nil {
							return true
						}
						if op == "<" {
							return d.Before(ts)
						}
						return !d.After(ts)
					}, true
				}
				return nil, false
			}
			return func(r Row) bool {
				v := rowInt(r[col])
				if v == nil {
					return false
				}
				cmp := v.Cmp(n)
				switch op {
				case "<":
					return cmp < 0
				case "<=":
					return cmp <= 0
				case ">":
					return cmp > 0
				}
				return cmp >= 0
			}, true
		}
		if col == "metadata" && op == "@>" && val.Kind == TString {
			var want map[string]any
			if json.Unmarshal([]byte(val.Text), &want) != nil {
				return nil, false
			}
			*filters = append(*filters, txt)
			return func(r Row) bool {
				var have map[string]any
				switch x := r["metadata"].(type) {
				case []byte:
					_ = json.Unmarshal(x, &have)
				case string:
					_ = json.Unmarshal([]byte(x), &have)
				}
				for k, v := range want {
					if fmt.Sprint(have[k]) != fmt.Sprint(v) {
						return false
					}
					if _, ok := have[k]; !ok {
						return false
					}
				}
				return true
			}, true
		}
	}
	return nil, false
}

func splitOr(toks []Token) [][]Token {
	var out [][]Token
	depth, start := 0, 0
	for i, t := range toks {
		if t.Kind == TOp && t.Text == "(" {
			depth++
		} else if t.Kind == TOp && t.Text == ")" {
			depth--
		} else if depth == 0 && t.Kind == TIdent && t.Text == "or" {
			out = append(out, toks[start:i])
			start = i + 1
		}
	}
	return append(out, toks[start:])
}

// boolExpr understands and / or / not and parentheses over the atoms conjunct knows.
func (e *Engine) boolExpr(c []Token, filters *[]string) (pred, bool) {
	c = stripParens(c)
	if len(c) == 0 {
		return nil, false
	}
	if ors := splitOr(c); len(ors) > 1 {
		var ps []pred
		for _, o := range ors {
			p, ok := e.boolExpr(o, filters)
			if !ok {
				return nil, false
			}
			ps = append(ps, p)
		}
		return func(r Row) bool {
			for _, p := range ps {
				if p(r) {
					return true
				}
			}
			return false
		}, true
	}
	if ands := splitAnd(c); len(ands) > 1 {
		var ps []pred
		for _, a := range ands {
			p, ok := e.boolExpr(a, filters)
			if !ok {
				return nil, false
			}
			ps = append(ps, p)
		}
		return func(r Row) bool {
			for _, p := range ps {
				if !p(r) {
					return false
				}
			}
			return true
		}, true
	}
	if c[0].Kind == TIdent && c[0].Text == "not" {
		var inner []string
		p, ok := e.boolExpr(c[1:], &inner)
		if !ok {
			return nil, false
		}
		for _, f := range inner {
			*filters = append(*filters, "not "+f)
		}
		return func(r Row) bool { return !p(r) }, true
	}
	return e.conjunct(c, filters)
}

type orderKey struct {
	col  string
	desc bool
}

// parseOrderKeys reads `[t .] col [asc|desc] {, ...}`.
func parseOrderKeys(o []Token) []orderKey {
	var keys []orderKey
	var cur []Token
	flush := func() {
		if len(cur) == 0 {
			return
		}
		k := orderKey{}
		if n := len(cur); cur[n-1].Kind == TIdent && (cur[n-1].Text == "desc" || cur[n-1].Text == "asc") {
			k.desc = cur[n-1].Text == "desc"
			cur = cur[:n-1]
		}
		if len(cur) > 0 {
			k.col = lowerIdent(cur[len(cur)-1])
			keys = append(keys, k)
		}
		cur = nil
	}
	for _, t := range o {
		if t.Kind == TOp && t.Text == "," {
			flush()
			continue
		}
		cur = append(cur, t)
	}
	flush()
	return keys
}

func cmpValues(a, b driver.Value) int {
	if a == nil || b == nil {
		// NULLs sort last in ascending order (PostgreSQL default), first in descending
		switch {
		case a == nil && b == nil:
			return 0
		case a == nil:
			return 1
		default:
			return -1
		}
	}
	if at, ok := a.(time.Time); ok {
		if bt, ok := b.(time.Time); ok {
			return at.Compare(bt)
		}
	}
	if ai, bi := rowInt(a), rowInt(b); ai != nil && bi != nil {
		return ai.Cmp(bi)
	}
	return strings.Compare(fmt.Sprint(a), fmt.Sprint(b))
}

func sortRows(rows []Row, keys []orderKey) {
	sort.SliceStable(rows, func(i, j int) bool {
		for _, k := range keys {
			c := cmpValues(rows[i][k.col], rows[j][k.col])
			if k.desc {
				c = -c
			}
			if c != 0 {
				return c < 0
			}
		}
		return false
	})
}

// joinSpec is `left join T2 on <cond>` or `left join lateral (select * from T2 where <cond> order by ... limit n) as T2 on true`.
type joinSpec struct {
	table   string
	fk, pk  string // T2.fk = T1.pk
	dateOp  string // "<" or "<=" ("" = no bound)
	dateCol string
	date    time.Time
	lateral bool
	order   []orderKey
	limit   int // 0 = none
}

// parseJoin understands the two shapes above; it returns a reason when it does not.
func (e *Engine) parseJoin(j []Token, mainTable string) (*joinSpec, string) {
	js := &joinSpec{}
	if len(j) < 4 || j[0].Text != "left" || j[1].Text != "join" {
		return nil, "not a left join"
	}
	var cond []Token
	if j[2].Kind == TIdent && j[2].Text == "lateral" {
		js.lateral = true
		if !(j[3].Kind == TOp && j[3].Text == "(") {
			return nil, "lateral without a sub-select"
		}
		depth, end := 0, -1
		for i := 3; i < len(j); i++ {
			if j[i].Kind == TOp && j[i].Text == "(" {
				depth++
			} else if j[i].Kind == TOp && j[i].Text == ")" {
				depth--
				if depth == 0 {
					end = i
					break
				}
			}
		}
		if end < 0 {
			return nil, "unbalanced sub-select"
		}
		sub := j[4:end]
		if len(sub) < 4 || sub[0].Text != "select" {
			return nil, "sub-select expected"
		}
		f := topLevel(sub, 0, "from")
		w := topLevel(sub, 0, "where")
		o := topLevel(sub, 0, "order")
		l := topLevel(sub, 0, "limit")
		if f < 0 || w < 0 {
			return nil, "sub-select without FROM / WHERE"
		}
		js.table = lowerIdent(sub[f+1])
		endW := len(sub)
		for _, x := range []int{o, l} {
			if x > w && x < endW {
				endW = x
			}
		}
		cond = sub[w+1 : endW]
		if o >= 0 {
			endO := len(sub)
			if l > o {
				endO = l
			}
			if o+1 >= len(sub) || sub[o+1].Text != "by" {
				return nil, "ORDER without BY"
			}
			js.order = parseOrderKeys(sub[o+2 : endO])
		}
		if l >= 0 && l+1 < len(sub) {
			n, ok := intOf(sub[l+1])
			if !ok {
				return nil, "LIMIT not an integer"
			}
			js.limit = int(n.Int64())
		}
		rest := textOf(j[end+1:])
		if !strings.HasSuffix(rest, "on true") {
			return nil, "lateral join condition is not `on true`: " + rest
		}
	} else {
		js.table = lowerIdent(j[2])
		on := -1
		for i := 3; i < len(j); i++ {
			if j[i].Kind == TIdent && j[i].Text == "on" {
				on = i
				break
			}
		}
		if on < 0 {
			return nil, "join without ON"
		}
		cond = j[on+1:]
	}
	// cond: conjuncts `a . x = b . y` and `[t .] date <|<= 'ts'`
	for _, c := range splitAnd(cond) {
		c = stripParens(c)
		// qualified names collapse to (table, column)
		type ref struct{ t, c string }
		var refs []ref
		var ops []string
		var consts []Token
		for i := 0; i < len(c); i++ {
			t := c[i]
			switch {
			case t.Kind == TIdent || t.Kind == TQuotedIdent:
				r := ref{"", lowerIdent(t)}
				if i+2 < len(c) && c[i+1].Kind == TOp && c[i+1].Text == "." {
					r = ref{lowerIdent(t), lowerIdent(c[i+2])}
					i += 2
				}
				refs = append(refs, r)
			case t.Kind == TOp:
				ops = append(ops, t.Text)
			case t.Kind == TString:
				consts = append(consts, t)
			}
		}
		switch {
		case len(refs) == 2 && len(ops) == 1 && ops[0] == "=" && len(consts) == 0:
			a, b := refs[0], refs[1]
			if a.t == js.table && b.t == mainTable {
				js.fk, js.pk = a.c, b.c
			} else if b.t == js.table && a.t == mainTable {
				js.fk, js.pk = b.c, a.c
			} else {
				return nil, "join equality between unexpected tables: " + textOf(c)
			}
		case len(refs) == 1 && len(ops) == 1 && (ops[0] == "<" || ops[0] == "<=") && len(consts) == 1:
			ts, err := time.Parse(time.RFC3339Nano, consts[0].Text)
			if err != nil {
				return nil, "time bound " + consts[0].Text
			}
			js.dateOp, js.dateCol, js.date = ops[0], refs[0].c, ts
		default:
			return nil, "join conjunct: " + textOf(c)
		}
	}
	if js.fk == "" {
		return nil, "no key equality in the join"
	}
	return js, ""
}

// applyJoin gives the rows of `main LEFT JOIN spec`: per main row its matching revision rows (their
// metadata / revision / date override the main row's columns of the same name), or the row itself
// with NULLs when nothing matches.
// mainMetadata is the key under which a joined row keeps the main table's own metadata column (the key
// "metadata" then holds the joined revision's, which is what unqualified references after the join see).
const mainMetadata = "\x00main.metadata"

func (e *Engine) applyJoin(main []Row, js *joinSpec) []Row {
	t2 := e.Tables[js.table]
	var out []Row
	for _, r := range main {
		var matches []Row
		for _, m := range t2.Rows {
			if fmt.Sprint(m[js.fk]) != fmt.Sprint(r[js.pk]) {
				continue
			}
			if js.dateOp != "" {
				d, ok := m[js.dateCol].(time.Time)
				if !ok {
					continue
				}
				if js.dateOp == "<" && !d.Before(js.date) {
					continue
				}
				if js.dateOp == "<=" && d.After(js.date) {
					continue
				}
			}
			matches = append(matches, m)
		}
		if js.lateral {
			if len(js.order) > 0 {
				sortRows(matches, js.order)
			}
			if js.limit > 0 && len(matches) > js.limit {
				matches = matches[:js.limit]
			}
		}
		if len(matches) == 0 {
			nr := Row{}
			for k, v := range r {
				nr[k] = v
			}
			nr[mainMetadata] = r["metadata"]
			nr["metadata"], nr["revision"], nr["date"] = nil, nil, nil
			out = append(out, nr)
			continue
		}
		for _, m := range matches {
			nr := Row{}
			for k, v := range r {
				nr[k] = v
			}
			nr[mainMetadata] = r["metadata"]
			for _, k := range []string{"metadata", "revision", "date"} {
				nr[k] = m[k]
			}
			out = append(out, nr)
		}
	}
	return out
}

// Answer implements sqlrec.Answer.
func (e *Engine) Answer(sql string) ([]string, [][]driver.Value, error) {
	toks, err := Lex(sql)
	if err != nil {
		return e.unhandled("statement does not lex: %v: %s", err, sql)
	}
	cols, rows, err := e.selectRows(toks, sql, true)
	return cols, rows, err
}

func (e *Engine) selectRows(toks []Token, sql string, record bool) ([]string, [][]driver.Value, error) {
	if len(toks) == 0 || toks[0].Kind != TIdent || toks[0].Text != "select" {
		return e.unhandled("not a SELECT: %s", sql)
	}
	from := topLevel(toks, 1, "from")
	if from < 0 || from+1 >= len(toks) {
		return e.unhandled("no FROM: %s", sql)
	}
	// count(*) wrapper
	if from >= 5 && toks[1].Kind == TIdent && toks[1].Text == "count" {
		if toks[from+1].Kind == TOp && toks[from+1].Text == "(" {
			depth, end := 0, -1
			for i := from + 1; i < len(toks); i++ {
				if toks[i].Kind == TOp && toks[i].Text == "(" {
					depth++
				} else if toks[i].Kind == TOp && toks[i].Text == ")" {
					depth--
					if depth == 0 {
						end = i
						break
					}
				}
			}
			if end < 0 {
				return e.unhandled("unbalanced count query: %s", sql)
			}
			_, rows, err := e.selectRows(toks[from+2:end], sql, false)
			if err != nil {
				return nil, nil, err
			}
			return []string{"count"}, [][]driver.Value{{int64(len(rows))}}, nil
		}
	}
	tname := lowerIdent(toks[from+1])
	table, ok := e.Tables[tname]
	if !ok {
		return e.unhandled("unknown table %q: %s", tname, sql)
	}
	where := topLevel(toks, from+2, "where")
	order := topLevel(toks, from+2, "order")
	limit := topLevel(toks, from+2, "limit")
	offset := topLevel(toks, from+2, "offset")
	end := len(toks)
	bound := func(after int) int {
		b := end
		for _, x := range []int{where, order, limit, offset} {
			if x > after && x < b {
				b = x
			}
		}
		return b
	}
	// between the table name and the first clause: nothing, or one left join (plain or lateral) that
	// attaches the rows of a revisions table (<x>_metadata) to each row of the main table
	first := bound(from + 1)
	var join *joinSpec
	if first != from+2 {
		j := toks[from+2]
		if !(j.Kind == TIdent && (j.Text == "as" || j.Text == "left")) {
			return e.unhandled("FROM clause not understood: %s", sql)
		}
		if j.Text == "left" {
			js, err := e.parseJoin(toks[from+2:first], tname)
			if err != "" {
				return e.unhandled("join not understood (%s): %s", err, sql)
			}
			join = js
		}
	}
	var preds []pred
	var filters []string
	if where >= 0 {
		for _, c := range splitAnd(toks[where+1 : bound(where)]) {
			p, ok := e.boolExpr(c, &filters)
			if !ok {
				return e.unhandled("conjunct not understood: %s   in: %s", textOf(c), sql)
			}
			preds = append(preds, p)
		}
	}
	base := table.Rows
	if join != nil {
		if _, ok := e.Tables[join.table]; ok {
			base = e.applyJoin(table.Rows, join)
		}
		// a revisions table the test did not provide: every row has no revision (left join => one row each)
	}
	var out []Row
	for _, r := range base {
		keep := true
		for _, p := range preds {
			if !p(r) {
				keep = false
				break
			}
		}
		if keep {
			out = append(out, r)
		}
	}
	if order >= 0 {
		o := toks[order+1 : bound(order)]
		if len(o) < 2 || o[0].Text != "by" {
			return e.unhandled("ORDER without BY: %s", sql)
		}
		keys := parseOrderKeys(o[1:])
		if len(keys) == 0 {
			return e.unhandled("ORDER BY not understood: %s", sql)
		}
		sortRows(out, keys)
	}
	// SELECT DISTINCT ON (<col>) ...: the first row of each value, in the order just established
	if len(toks) > 6 && toks[1].Kind == TIdent && toks[1].Text == "distinct" && toks[2].Kind == TIdent && toks[2].Text == "on" && toks[3].Kind == TOp && toks[3].Text == "(" {
		k := 4
		col := ""
		for ; k < len(toks) && !(toks[k].Kind == TOp && toks[k].Text == ")"); k++ {
			if toks[k].Kind == TIdent || toks[k].Kind == TQuotedIdent {
				col = lowerIdent(toks[k])
			}
		}
		seen := map[string]bool{}
		var kept []Row
		for _, r := range out {
			v := fmt.Sprint(r[col])
			if !seen[v] {
				seen[v] = true
				kept = append(kept, r)
			}
		}
		out = kept
	}
	if offset >= 0 {
		n, ok := intOf(toks[offset+1])
		if !ok {
			return e.unhandled("OFFSET not an integer: %s", sql)
		}
		k := int(n.Int64())
		if k > len(out) {
			k = len(out)
		}
		out = out[k:]
	}
	if limit >= 0 {
		n, ok := intOf(toks[limit+1])
		if !ok {
			return e.unhandled("LIMIT not an integer: %s", sql)
		}
		if k := int(n.Int64()); k < len(out) {
			out = out[:k]
		}
	}
	if record {
		sort.Strings(filters)
		e.Conjuncts = append(e.Conjuncts, filters)
	}
	// "<main>.*" next to the joined revision's metadata: PostgreSQL answers two columns called metadata, the
	// main table's current one first (the client library scans both into the same field, in that order)
	twoMetadata := false
	if join != nil {
		if _, joined := e.Tables[join.table]; joined {
			for i := 1; i+1 < from; i++ {
				if toks[i].Kind == TOp && toks[i].Text == "." && toks[i+1].Kind == TOp && toks[i+1].Text == "*" {
					twoMetadata = true
				}
			}
		}
	}
	cols := table.Columns
	if twoMetadata {
		cols = append(append([]string{}, table.Columns...), "metadata")
	}
	rows := make([][]driver.Value, len(out))
	for i, r := range out {
		vals := make([]driver.Value, len(cols))
		for j, c := range table.Columns {
			vals[j] = r[c]
			if twoMetadata && c == "metadata" {
				vals[j] = r[mainMetadata]
			}
		}
		if twoMetadata {
			vals[len(cols)-1] = r["metadata"]
		}
		rows[i] = vals
	}
	return cols, rows, nil
}
