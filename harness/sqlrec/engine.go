package sqlrec

import (
	"database/sql/driver"
	"encoding/json"
	"fmt"
	"math/big"
	"sort"
	"strings"
)

// Row is one record of an in-memory table; values are what a PostgreSQL
// driver would hand to database/sql (string, int64, []byte, time.Time, nil).
type Row map[string]driver.Value

// Table is an in-memory table owned by a test.
type Table struct {
	Columns []string
	Rows    []Row
}

// Engine answers the narrow SELECT shapes bun emits for the list queries:
//
//	SELECT <cols> FROM "<t>" [WHERE (<c1>) AND (<c2>) ...] ORDER BY <col> [ASC|DESC] [LIMIT n] [OFFSET m]
//	SELECT count(*) FROM (<inner>) data
//
// Conjuncts it understands: ledger predicates, `<col> <op> <integer>` on the
// ordering column, `reference = '<v>'`, `<x>.address = '<v>'` and
// `metadata @> '<json object>'`. Anything else is reported through Unhandled
// (a harness error, never a property violation).
type Engine struct {
	Tables    map[string]*Table
	Ledger    string
	Unhandled []string
	Conjuncts [][]string // per answered list statement: the filter conjuncts it carried (normalised text)
}

func (e *Engine) unhandled(format string, args ...any) ([]string, [][]driver.Value, error) {
	msg := fmt.Sprintf(format, args...)
	e.Unhandled = append(e.Unhandled, msg)
	return nil, nil, fmt.Errorf("sqlrec engine: %s", msg)
}

func lowerIdent(t Token) string {
	if t.Kind == TQuotedIdent {
		return t.Text
	}
	return strings.ToLower(t.Text)
}

// topLevel returns the index of the first keyword kw at parenthesis depth 0, from start.
func topLevel(toks []Token, start int, kws ...string) int {
	depth := 0
	for i := start; i < len(toks); i++ {
		t := toks[i]
		if t.Kind == TOp && t.Text == "(" {
			depth++
		} else if t.Kind == TOp && t.Text == ")" {
			depth--
		} else if depth == 0 && t.Kind == TIdent {
			for _, kw := range kws {
				if t.Text == kw {
					return i
				}
			}
		}
	}
	return -1
}

func textOf(toks []Token) string {
	parts := make([]string, len(toks))
	for i, t := range toks {
		switch t.Kind {
		case TString:
			parts[i] = "'" + t.Text + "'"
		case TQuotedIdent:
			parts[i] = t.Text
		default:
			parts[i] = t.Text
		}
	}
	return strings.Join(parts, " ")
}

func stripParens(toks []Token) []Token {
	for len(toks) >= 2 && toks[0].Kind == TOp && toks[0].Text == "(" && toks[len(toks)-1].Kind == TOp && toks[len(toks)-1].Text == ")" {
		// make sure the outer parentheses match each other
		depth := 0
		ok := true
		for i, t := range toks {
			if t.Kind == TOp && t.Text == "(" {
				depth++
			} else if t.Kind == TOp && t.Text == ")" {
				depth--
				if depth == 0 && i != len(toks)-1 {
					ok = false
					break
				}
			}
		}
		if !ok {
			break
		}
		toks = toks[1 : len(toks)-1]
	}
	return toks
}

func splitAnd(toks []Token) [][]Token {
	var out [][]Token
	depth, start := 0, 0
	for i, t := range toks {
		if t.Kind == TOp && t.Text == "(" {
			depth++
		} else if t.Kind == TOp && t.Text == ")" {
			depth--
		} else if depth == 0 && t.Kind == TIdent && t.Text == "and" {
			out = append(out, toks[start:i])
			start = i + 1
		}
	}
	return append(out, toks[start:])
}

func intOf(t Token) (*big.Int, bool) {
	if t.Kind != TNumber && t.Kind != TString {
		return nil, false
	}
	v, ok := new(big.Int).SetString(t.Text, 10)
	return v, ok
}

func rowInt(v driver.Value) *big.Int {
	switch x := v.(type) {
	case int64:
		return big.NewInt(x)
	case string:
		n, _ := new(big.Int).SetString(x, 10)
		return n
	case []byte:
		n, _ := new(big.Int).SetString(string(x), 10)
		return n
	}
	return nil
}

type pred func(Row) bool

// conjunct turns one WHERE conjunct into a predicate.
func (e *Engine) conjunct(c []Token, filters *[]string) (pred, bool) {
	c = stripParens(c)
	txt := textOf(c)
	last := func(t Token) string {
		s := lowerIdent(t)
		return s
	}
	// column reference possibly qualified: a . b
	col := ""
	rest := c
	if len(c) >= 3 && (c[0].Kind == TIdent || c[0].Kind == TQuotedIdent) {
		col = last(c[0])
		rest = c[1:]
		if len(rest) >= 2 && rest[0].Kind == TOp && rest[0].Text == "." && (rest[1].Kind == TIdent || rest[1].Kind == TQuotedIdent) {
			col = last(rest[1])
			rest = rest[2:]
		}
	}
	if col != "" && len(rest) == 2 && rest[0].Kind == TOp {
		op, val := rest[0].Text, rest[1]
		switch {
		case col == "ledger" && op == "=" && val.Kind == TString:
			want := val.Text
			return func(Row) bool { return want == e.Ledger }, true
		case col == "reference" && op == "=" && val.Kind == TString:
			*filters = append(*filters, txt)
			return func(r Row) bool { s, _ := r["reference"].(string); return s == val.Text }, true
		case col == "address" && op == "=" && val.Kind == TString:
			*filters = append(*filters, txt)
			return func(r Row) bool { s, _ := r["address"].(string); return s == val.Text }, true
		case op == "<" || op == "<=" || op == ">" || op == ">=":
			n, ok := intOf(val)
			if !ok {
				// point-in-time bounds: every row of the static collection is older than "now"
				if val.Kind == TString && (col == "insertion_date" || col == "timestamp" || col == "date") && (op == "<=" || op == "<") {
					return func(Row) bool { return true }, true
				}
				return nil, false
			}
			return func(r Row) bool {
				v := rowInt(r[col])
				if v == nil {
					return false
				}
				cmp := v.Cmp(n)
				switch op {
				case "<":
					return cmp < 0
				case "<=":
					return cmp <= 0
				case ">":
					return cmp > 0
				}
				return cmp >= 0
			}, true
		}
		if col == "metadata" && op == "@>" && val.Kind == TString {
			var want map[string]any
			if json.Unmarshal([]byte(val.Text), &want) != nil {
				return nil, false
			}
			*filters = append(*filters, txt)
			return func(r Row) bool {
				var have map[string]any
				switch x := r["metadata"].(type) {
				case []byte:
					_ = json.Unmarshal(x, &have)
				case string:
					_ = json.Unmarshal([]byte(x), &have)
				}
				for k, v := range want {
					if fmt.Sprint(have[k]) != fmt.Sprint(v) {
						return false
					}
					if _, ok := have[k]; !ok {
						return false
					}
				}
				return true
			}, true
		}
	}
	return nil, false
}

func splitOr(toks []Token) [][]Token {
	var out [][]Token
	depth, start := 0, 0
	for i, t := range toks {
		if t.Kind == TOp && t.Text == "(" {
			depth++
		} else if t.Kind == TOp && t.Text == ")" {
			depth--
		} else if depth == 0 && t.Kind == TIdent && t.Text == "or" {
			out = append(out, toks[start:i])
			start = i + 1
		}
	}
	return append(out, toks[start:])
}

// boolExpr understands and / or / not and parentheses over the atoms conjunct knows.
func (e *Engine) boolExpr(c []Token, filters *[]string) (pred, bool) {
	c = stripParens(c)
	if len(c) == 0 {
		return nil, false
	}
	if ors := splitOr(c); len(ors) > 1 {
		var ps []pred
		for _, o := range ors {
			p, ok := e.boolExpr(o, filters)
			if !ok {
				return nil, false
			}
			ps = append(ps, p)
		}
		return func(r Row) bool {
			for _, p := range ps {
				if p(r) {
					return true
				}
			}
			return false
		}, true
	}
	if ands := splitAnd(c); len(ands) > 1 {
		var ps []pred
		for _, a := range ands {
			p, ok := e.boolExpr(a, filters)
			if !ok {
				return nil, false
			}
			ps = append(ps, p)
		}
		return func(r Row) bool {
			for _, p := range ps {
				if !p(r) {
					return false
				}
			}
			return true
		}, true
	}
	if c[0].Kind == TIdent && c[0].Text == "not" {
		var inner []string
		p, ok := e.boolExpr(c[1:], &inner)
		if !ok {
			return nil, false
		}
		for _, f := range inner {
			*filters = append(*filters, "not "+f)
		}
		return func(r Row) bool { return !p(r) }, true
	}
	return e.conjunct(c, filters)
}

// Answer implements sqlrec.Answer.
func (e *Engine) Answer(sql string) ([]string, [][]driver.Value, error) {
	toks, err := Lex(sql)
	if err != nil {
		return e.unhandled("statement does not lex: %v: %s", err, sql)
	}
	cols, rows, err := e.selectRows(toks, sql, true)
	return cols, rows, err
}

func (e *Engine) selectRows(toks []Token, sql string, record bool) ([]string, [][]driver.Value, error) {
	if len(toks) == 0 || toks[0].Kind != TIdent || toks[0].Text != "select" {
		return e.unhandled("not a SELECT: %s", sql)
	}
	from := topLevel(toks, 1, "from")
	if from < 0 || from+1 >= len(toks) {
		return e.unhandled("no FROM: %s", sql)
	}
	// count(*) wrapper
	if from >= 5 && toks[1].Kind == TIdent && toks[1].Text == "count" {
		if toks[from+1].Kind == TOp && toks[from+1].Text == "(" {
			depth, end := 0, -1
			for i := from + 1; i < len(toks); i++ {
				if toks[i].Kind == TOp && toks[i].Text == "(" {
					depth++
				} else if toks[i].Kind == TOp && toks[i].Text == ")" {
					depth--
					if depth == 0 {
						end = i
						break
					}
				}
			}
			if end < 0 {
				return e.unhandled("unbalanced count query: %s", sql)
			}
			_, rows, err := e.selectRows(toks[from+2:end], sql, false)
			if err != nil {
				return nil, nil, err
			}
			return []string{"count"}, [][]driver.Value{{int64(len(rows))}}, nil
		}
	}
	tname := lowerIdent(toks[from+1])
	table, ok := e.Tables[tname]
	if !ok {
		return e.unhandled("unknown table %q: %s", tname, sql)
	}
	where := topLevel(toks, from+2, "where")
	order := topLevel(toks, from+2, "order")
	limit := topLevel(toks, from+2, "limit")
	offset := topLevel(toks, from+2, "offset")
	end := len(toks)
	bound := func(after int) int {
		b := end
		for _, x := range []int{where, order, limit, offset} {
			if x > after && x < b {
				b = x
			}
		}
		return b
	}
	// anything between the table name and the first clause (joins ...) is not supported
	// left joins that only add metadata revisions / lateral metadata do not change which rows
	// of the static collection are listed: they are skipped
	first := bound(from + 1)
	if first != from+2 {
		j := toks[from+2]
		if !(j.Kind == TIdent && (j.Text == "as" || j.Text == "left")) {
			return e.unhandled("FROM clause not understood: %s", sql)
		}
	}
	var preds []pred
	var filters []string
	if where >= 0 {
		for _, c := range splitAnd(toks[where+1 : bound(where)]) {
			p, ok := e.boolExpr(c, &filters)
			if !ok {
				return e.unhandled("conjunct not understood: %s   in: %s", textOf(c), sql)
			}
			preds = append(preds, p)
		}
	}
	var out []Row
	for _, r := range table.Rows {
		keep := true
		for _, p := range preds {
			if !p(r) {
				keep = false
				break
			}
		}
		if keep {
			out = append(out, r)
		}
	}
	if order >= 0 {
		o := toks[order+1 : bound(order)]
		if len(o) < 2 || o[0].Text != "by" {
			return e.unhandled("ORDER without BY: %s", sql)
		}
		o = o[1:]
		// secondary keys only order metadata revisions of one row: the first key decides
		for i, t := range o {
			if t.Kind == TOp && t.Text == "," {
				o = o[:i]
				break
			}
		}
		desc := false
		if n := len(o); n > 0 && o[n-1].Kind == TIdent && (o[n-1].Text == "desc" || o[n-1].Text == "asc") {
			desc = o[n-1].Text == "desc"
			o = o[:n-1]
		}
		col := lowerIdent(o[len(o)-1])
		sort.SliceStable(out, func(i, j int) bool {
			a, b := out[i][col], out[j][col]
			var less bool
			if ai, bi := rowInt(a), rowInt(b); ai != nil && bi != nil {
				less = ai.Cmp(bi) < 0
				if desc {
					less = ai.Cmp(bi) > 0
				}
				return less
			}
			as, bs := fmt.Sprint(a), fmt.Sprint(b)
			if desc {
				return as > bs
			}
			return as < bs
		})
	}
	if offset >= 0 {
		n, ok := intOf(toks[offset+1])
		if !ok {
			return e.unhandled("OFFSET not an integer: %s", sql)
		}
		k := int(n.Int64())
		if k > len(out) {
			k = len(out)
		}
		out = out[k:]
	}
	if limit >= 0 {
		n, ok := intOf(toks[limit+1])
		if !ok {
			return e.unhandled("LIMIT not an integer: %s", sql)
		}
		if k := int(n.Int64()); k < len(out) {
			out = out[:k]
		}
	}
	if record {
		sort.Strings(filters)
		e.Conjuncts = append(e.Conjuncts, filters)
	}
	rows := make([][]driver.Value, len(out))
	for i, r := range out {
		vals := make([]driver.Value, len(table.Columns))
		for j, c := range table.Columns {
			vals[j] = r[c]
		}
		rows[i] = vals
	}
	return table.Columns, rows, nil
}
