package sqlrec

import (
	"fmt"
	"strings"
)

// UnscopedSelects inspects every SELECT block of a statement (the statement itself, sub-selects, CTE bodies,
// lateral joins) that reads one of the ledger-scoped tables directly, and returns a description of each block
// that neither restricts the ledger (`[x.]ledger = '<name>'` somewhere in the block, outside nested selects)
// nor is tied to an outer row through a bucket-wide unique key (`... seq = ... seq`: all `seq` columns are
// serial keys shared by the ledgers of a bucket). Such a block sees the rows of every ledger of the bucket.
// A table name that is also the name of a CTE of the statement counts as the table only inside that CTE's body.
func UnscopedSelects(sql, ledger string, core map[string]bool) ([]string, error) {
	toks, err := Lex(sql)
	if err != nil {
		return nil, err
	}
	// matching parentheses
	match := map[int]int{}
	var stack []int
	for i, t := range toks {
		if t.Kind == TOp && t.Text == "(" {
			stack = append(stack, i)
		} else if t.Kind == TOp && t.Text == ")" {
			if len(stack) == 0 {
				return nil, fmt.Errorf("unbalanced parentheses")
			}
			match[stack[len(stack)-1]] = i
			stack = stack[:len(stack)-1]
		}
	}
	if len(stack) != 0 {
		return nil, fmt.Errorf("unbalanced parentheses")
	}
	kw := func(i int, s string) bool {
		return i >= 0 && i < len(toks) && toks[i].Kind == TIdent && toks[i].Text == s
	}
	// CTE bodies: <name> as ( ... )
	type span struct{ from, to int }
	cte := map[string]span{}
	for i := 0; i+2 < len(toks); i++ {
		if (toks[i].Kind == TIdent || toks[i].Kind == TQuotedIdent) && kw(i+1, "as") && toks[i+2].Kind == TOp && toks[i+2].Text == "(" && kw(i+3, "select") {
			if i > 0 && (kw(i-1, "with") || (toks[i-1].Kind == TOp && toks[i-1].Text == ",")) {
				cte[lowerIdent(toks[i])] = span{i + 2, match[i+2]}
			}
		}
	}
	var out []string
	// every select keyword opens a block that ends at the parenthesis enclosing it (or at the end of the statement)
	for i := range toks {
		if !kw(i, "select") {
			continue
		}
		end := len(toks)
		depth := 0
		for j := i; j < len(toks); j++ {
			if toks[j].Kind == TOp && toks[j].Text == "(" {
				depth++
			} else if toks[j].Kind == TOp && toks[j].Text == ")" {
				if depth == 0 {
					end = j
					break
				}
				depth--
			}
		}
		// tokens of the block at its own level: nested parentheses are kept unless they hold a select of their own
		var own []Token
		for j := i; j < end; j++ {
			if toks[j].Kind == TOp && toks[j].Text == "(" && kw(j+1, "select") {
				j = match[j]
				continue
			}
			own = append(own, toks[j])
		}
		// tables read by the block: identifiers following FROM or JOIN (at any parenthesis level of `own`)
		var tables []string
		for j := 0; j+1 < len(own); j++ {
			if own[j].Kind == TIdent && (own[j].Text == "from" || own[j].Text == "join") {
				n := own[j+1]
				if n.Kind == TIdent && n.Text == "lateral" {
					continue
				}
				if n.Kind != TIdent && n.Kind != TQuotedIdent {
					continue
				}
				name := lowerIdent(n)
				// schema-qualified: "bucket"."moves"
				if j+3 < len(own) && own[j+2].Kind == TOp && own[j+2].Text == "." && (own[j+3].Kind == TIdent || own[j+3].Kind == TQuotedIdent) {
					name = lowerIdent(own[j+3])
				}
				if !core[name] {
					continue
				}
				if sp, isCTE := cte[name]; isCTE && !(i > sp.from && i < sp.to) {
					continue // the name denotes the CTE here
				}
				tables = append(tables, name)
			}
		}
		if len(tables) == 0 {
			continue
		}
		scoped := false
		for j := 0; j+2 < len(own); j++ {
			if (own[j].Kind == TIdent || own[j].Kind == TQuotedIdent) && lowerIdent(own[j]) == "ledger" && own[j+1].Kind == TOp && own[j+1].Text == "=" && own[j+2].Kind == TString && own[j+2].Text == ledger {
				scoped = true
			}
			// <x>seq = [alias .] <y>seq
			if (own[j].Kind == TIdent || own[j].Kind == TQuotedIdent) && strings.HasSuffix(lowerIdent(own[j]), "seq") && own[j+1].Kind == TOp && own[j+1].Text == "=" {
				k := j + 2
				if k+2 < len(own) && own[k+1].Kind == TOp && own[k+1].Text == "." {
					k += 2
				}
				if k < len(own) && (own[k].Kind == TIdent || own[k].Kind == TQuotedIdent) && strings.HasSuffix(lowerIdent(own[k]), "seq") {
					scoped = true
				}
			}
		}
		if !scoped {
			out = append(out, fmt.Sprintf("a select over %s has neither a predicate on the ledger nor a join on a seq key: %s", strings.Join(tables, ", "), clipText(textOf(own), 220)))
		}
	}
	return out, nil
}

func clipText(s string, n int) string {
	if len(s) > n {
		return s[:n] + "..."
	}
	return s
}
