package enginesim

import (
	"context"
	"database/sql"
	"errors"
	"fmt"
	"io"
	"math/big"
	"sort"
	"sync"

	ledger "github.com/formancehq/ledger/internal"
	"github.com/formancehq/ledger/internal/bus"
	"github.com/formancehq/ledger/internal/engine/command"
	"github.com/formancehq/ledger/internal/storage/sqlutils"
	"github.com/formancehq/ledger/verifharness/storeform"
	"github.com/formancehq/stack/libs/go-libs/logging"
	"github.com/formancehq/stack/libs/go-libs/metadata"
)

// Fold is the harness's own replay of a log: balances, transactions,
// metadata. It shares no code with the engine or with storage.InMemoryStore.
type Fold struct {
	Balances    map[string]map[string]*big.Int
	Txs         map[string]*TxState
	TxOrder     []string
	AccountMeta map[string]map[string]string
}

// TxState is what the fold knows about one transaction.
type TxState struct {
	ID        *big.Int
	Postings  []ledger.Posting
	Metadata  map[string]string
	Reference string
	Timestamp ledger.Time
	Reverted  bool
	LogIndex  int
}

func NewFold() *Fold {
	return &Fold{
		Balances:    map[string]map[string]*big.Int{},
		Txs:         map[string]*TxState{},
		AccountMeta: map[string]map[string]string{},
	}
}

func (f *Fold) bal(acc, asset string) *big.Int {
	m, ok := f.Balances[acc]
	if !ok {
		m = map[string]*big.Int{}
		f.Balances[acc] = m
	}
	b, ok := m[asset]
	if !ok {
		b = new(big.Int)
		m[asset] = b
	}
	return b
}

// Balance returns a copy of the balance of (acc, asset).
func (f *Fold) Balance(acc, asset string) *big.Int {
	if m, ok := f.Balances[acc]; ok {
		if b, ok := m[asset]; ok {
			return new(big.Int).Set(b)
		}
	}
	return new(big.Int)
}

// Snapshot renders all non-zero balances as "acc/asset" -> decimal string.
func (f *Fold) Snapshot() map[string]string {
	out := map[string]string{}
	for a, m := range f.Balances {
		for as, b := range m {
			if b.Sign() != 0 {
				out[a+"/"+as] = b.String()
			}
		}
	}
	return out
}

func (f *Fold) addTx(tx *ledger.Transaction, logIndex int) {
	st := &TxState{
		ID:        new(big.Int).Set(tx.ID),
		Metadata:  map[string]string{},
		Reference: tx.Reference,
		Timestamp: tx.Timestamp,
		LogIndex:  logIndex,
	}
	for _, p := range tx.Postings {
		amt := new(big.Int).Set(p.Amount)
		st.Postings = append(st.Postings, ledger.Posting{Source: p.Source, Destination: p.Destination, Asset: p.Asset, Amount: amt})
		f.bal(p.Source, p.Asset).Sub(f.bal(p.Source, p.Asset), amt)
		f.bal(p.Destination, p.Asset).Add(f.bal(p.Destination, p.Asset), amt)
	}
	for k, v := range tx.Metadata {
		st.Metadata[k] = v
	}
	key := tx.ID.String()
	if _, dup := f.Txs[key]; !dup {
		f.TxOrder = append(f.TxOrder, key)
	}
	f.Txs[key] = st
}

func idString(v any) string {
	switch x := v.(type) {
	case *big.Int:
		return x.String()
	case string:
		return x
	default:
		return fmt.Sprint(v)
	}
}

// Apply replays one log entry.
func (f *Fold) Apply(cl *ledger.ChainedLog, logIndex int) {
	switch p := cl.Data.(type) {
	case ledger.NewTransactionLogPayload:
		f.addTx(p.Transaction, logIndex)
		for acc, md := range p.AccountMetadata {
			m, ok := f.AccountMeta[acc]
			if !ok {
				m = map[string]string{}
				f.AccountMeta[acc] = m
			}
			for k, v := range md {
				m[k] = v
			}
		}
	case ledger.RevertedTransactionLogPayload:
		f.addTx(p.RevertTransaction, logIndex)
		if t, ok := f.Txs[p.RevertedTransactionID.String()]; ok {
			t.Reverted = true
		}
	case ledger.SetMetadataLogPayload:
		if p.TargetType == ledger.MetaTargetTypeTransaction {
			if t, ok := f.Txs[idString(p.TargetID)]; ok {
				for k, v := range p.Metadata {
					t.Metadata[k] = v
				}
			}
		} else {
			acc := idString(p.TargetID)
			m, ok := f.AccountMeta[acc]
			if !ok {
				m = map[string]string{}
				f.AccountMeta[acc] = m
			}
			for k, v := range p.Metadata {
				m[k] = v
			}
		}
	case ledger.DeleteMetadataLogPayload:
		if p.TargetType == ledger.MetaTargetTypeTransaction {
			if t, ok := f.Txs[idString(p.TargetID)]; ok {
				delete(t.Metadata, p.Key)
			}
		} else if m, ok := f.AccountMeta[idString(p.TargetID)]; ok {
			delete(m, p.Key)
		}
	}
}

// Persisted is one entry of the model store's log.
type Persisted struct {
	Log   *ledger.ChainedLog
	Batch int // index of the InsertLogs call that wrote it
	Gen   int // commander generation that wrote it
	Step  int // scheduler step at which the batch was committed
}

// InsertAttempt records every InsertLogs call, applied or not.
type InsertAttempt struct {
	Logs    []*ledger.ChainedLog
	Gen     int
	Step    int
	Outcome string // "committed" | "failed" | "blackhole"
}

// ModelStore implements command.Store. Reads answer from persisted entries
// only, like PostgreSQL: logs accepted by the batcher but not yet inserted
// are invisible. A batch is applied atomically.
type ModelStore struct {
	mu       sync.Mutex
	sim      *Sim
	Entries  []Persisted
	Attempts []InsertAttempt
	fold     *Fold
}

// ErrInjectedRead is what a store read answers when the plan makes it fail (a lost connection, a timeout).
// InsertFault is the error of a failing InsertLogs, by Plan.FaultKind: errors of the kinds a database driver hands
// back when a connection, a context or a transaction goes away under a batch. The engine has no business telling
// them apart: an insert that failed has not persisted anything.
func InsertFault(kind int) error {
	switch kind {
	case 1:
		return fmt.Errorf("injected store failure: inserting logs: %w", context.Canceled)
	case 2:
		return fmt.Errorf("injected store failure: inserting logs: %w", context.DeadlineExceeded)
	case 3:
		return fmt.Errorf("injected store failure: %w", sql.ErrTxDone)
	case 4:
		return io.ErrUnexpectedEOF
	}
	return fmt.Errorf("injected store failure")
}

var ErrInjectedRead = errors.New("injected store read failure")

func newModelStore(sim *Sim) *ModelStore {
	return &ModelStore{sim: sim, fold: NewFold()}
}

// txByReference is the id of the first committed transaction carrying ref.
func (m *ModelStore) txByReference(ref string) (int64, bool) {
	m.mu.Lock()
	defer m.mu.Unlock()
	for _, k := range m.fold.TxOrder {
		if t := m.fold.Txs[k]; t.Reference == ref {
			return t.ID.Int64(), true
		}
	}
	return 0, false
}

// Len is the number of persisted entries.
func (m *ModelStore) Len() int { m.mu.Lock(); defer m.mu.Unlock(); return len(m.Entries) }

// Fold gives the current projection (callers must not mutate it).
func (m *ModelStore) FoldNow() *Fold { return m.fold }

func copyMeta(in map[string]string) metadata.Metadata {
	out := metadata.Metadata{}
	for k, v := range in {
		out[k] = v
	}
	return out
}

func (st *TxState) toCore() *ledger.Transaction {
	ps := make(ledger.Postings, len(st.Postings))
	for i, p := range st.Postings {
		ps[i] = ledger.Posting{Source: p.Source, Destination: p.Destination, Asset: p.Asset, Amount: new(big.Int).Set(p.Amount)}
	}
	return &ledger.Transaction{
		TransactionData: ledger.TransactionData{
			Postings:  ps,
			Metadata:  copyMeta(st.Metadata),
			Reference: st.Reference,
			Timestamp: ledger.Time{Time: st.Timestamp.Time.UTC()},
		},
		ID:       new(big.Int).Set(st.ID),
		Reverted: st.Reverted,
	}
}

func (m *ModelStore) GetBalance(ctx context.Context, address, asset string) (*big.Int, error) {
	if m.sim.gateCtx(ctx, "store.GetBalance:"+address+"/"+asset).fault {
		m.sim.gateCtx(ctx, "store.GetBalance.answer")
		return nil, ErrInjectedRead
	}
	if err := ctx.Err(); err != nil {
		// database/sql refuses to run a query for a caller that is gone
		m.sim.gateCtx(ctx, "store.GetBalance.answer")
		return nil, err
	}
	defer m.sim.gateCtx(ctx, "store.GetBalance.answer")
	m.mu.Lock()
	defer m.mu.Unlock()
	return m.fold.Balance(address, asset), nil
}

func (m *ModelStore) GetAccount(ctx context.Context, address string) (*ledger.Account, error) {
	if m.sim.gateCtx(ctx, "store.GetAccount:"+address).fault {
		m.sim.gateCtx(ctx, "store.GetAccount.answer")
		return nil, ErrInjectedRead
	}
	if err := ctx.Err(); err != nil {
		// database/sql refuses to run a query for a caller that is gone
		m.sim.gateCtx(ctx, "store.GetAccount.answer")
		return nil, err
	}
	defer m.sim.gateCtx(ctx, "store.GetAccount.answer")
	m.mu.Lock()
	defer m.mu.Unlock()
	return &ledger.Account{Address: address, Metadata: copyMeta(m.fold.AccountMeta[address])}, nil
}

func (m *ModelStore) GetLastLog(ctx context.Context) (*ledger.ChainedLog, error) {
	m.sim.gateCtx(ctx, "store.GetLastLog")
	m.mu.Lock()
	defer m.mu.Unlock()
	if len(m.Entries) == 0 {
		return nil, sqlutils.ErrNotFound
	}
	// "order by id desc limit 1"
	best := m.Entries[0].Log
	for _, e := range m.Entries[1:] {
		if e.Log.ID.Cmp(best.ID) > 0 {
			best = e.Log
		}
	}
	return storeform.RoundTrip(best)
}

func (m *ModelStore) GetLastTransaction(ctx context.Context) (*ledger.ExpandedTransaction, error) {
	m.sim.gateCtx(ctx, "store.GetLastTransaction")
	m.mu.Lock()
	defer m.mu.Unlock()
	if len(m.fold.TxOrder) == 0 {
		return nil, sqlutils.ErrNotFound
	}
	var best *TxState
	for _, k := range m.fold.TxOrder {
		t := m.fold.Txs[k]
		if best == nil || t.ID.Cmp(best.ID) > 0 {
			best = t
		}
	}
	return &ledger.ExpandedTransaction{Transaction: *best.toCore()}, nil
}

func (m *ModelStore) ReadLogWithIdempotencyKey(ctx context.Context, key string) (*ledger.ChainedLog, error) {
	if m.sim.gateCtx(ctx, "store.ReadLogWithIdempotencyKey").fault {
		m.sim.gateCtx(ctx, "store.ReadLogWithIdempotencyKey.answer")
		return nil, ErrInjectedRead
	}
	if err := ctx.Err(); err != nil {
		// database/sql refuses to run a query for a caller that is gone
		m.sim.gateCtx(ctx, "store.ReadLogWithIdempotencyKey.answer")
		return nil, err
	}
	defer m.sim.gateCtx(ctx, "store.ReadLogWithIdempotencyKey.answer")
	m.mu.Lock()
	defer m.mu.Unlock()
	// "order by id desc limit 1 where idempotency_key = ?"
	var best *ledger.ChainedLog
	for _, e := range m.Entries {
		if e.Log.IdempotencyKey == key && (best == nil || e.Log.ID.Cmp(best.ID) > 0) {
			best = e.Log
		}
	}
	if best == nil {
		return nil, sqlutils.ErrNotFound
	}
	return storeform.RoundTrip(best)
}

func (m *ModelStore) GetTransactionByReference(ctx context.Context, ref string) (*ledger.ExpandedTransaction, error) {
	if m.sim.gateCtx(ctx, "store.GetTransactionByReference").fault {
		m.sim.gateCtx(ctx, "store.GetTransactionByReference.answer")
		return nil, ErrInjectedRead
	}
	if err := ctx.Err(); err != nil {
		// database/sql refuses to run a query for a caller that is gone
		m.sim.gateCtx(ctx, "store.GetTransactionByReference.answer")
		return nil, err
	}
	defer m.sim.gateCtx(ctx, "store.GetTransactionByReference.answer")
	m.mu.Lock()
	defer m.mu.Unlock()
	for _, k := range m.fold.TxOrder {
		if t := m.fold.Txs[k]; t.Reference == ref {
			return &ledger.ExpandedTransaction{Transaction: *t.toCore()}, nil
		}
	}
	return nil, sqlutils.ErrNotFound
}

func (m *ModelStore) GetTransaction(ctx context.Context, txID *big.Int) (*ledger.Transaction, error) {
	if m.sim.gateCtx(ctx, "store.GetTransaction").fault {
		m.sim.gateCtx(ctx, "store.GetTransaction.answer")
		return nil, ErrInjectedRead
	}
	if err := ctx.Err(); err != nil {
		// database/sql refuses to run a query for a caller that is gone
		m.sim.gateCtx(ctx, "store.GetTransaction.answer")
		return nil, err
	}
	defer m.sim.gateCtx(ctx, "store.GetTransaction.answer")
	m.mu.Lock()
	defer m.mu.Unlock()
	t, ok := m.fold.Txs[txID.String()]
	if !ok {
		return nil, sqlutils.ErrNotFound
	}
	return t.toCore(), nil
}

// InsertLogs is called by the batch worker. The gate in front of it is the
// persistence latency; the scheduler decides whether the batch commits, fails
// (store fault) or disappears (the generation is dead).
// snapshot copies a log entry the way an insertion into a database does: what is stored is the content at the
// moment of the insertion, whatever happens afterwards to the objects the engine keeps in memory.
func snapshot(l *ledger.ChainedLog) *ledger.ChainedLog {
	big2 := func(v *big.Int) *big.Int {
		if v == nil {
			return nil
		}
		return new(big.Int).Set(v)
	}
	tx2 := func(tx *ledger.Transaction) *ledger.Transaction {
		if tx == nil {
			return nil
		}
		c := *tx
		c.ID = big2(tx.ID)
		c.Postings = make(ledger.Postings, len(tx.Postings))
		for i, p := range tx.Postings {
			c.Postings[i] = p
			c.Postings[i].Amount = big2(p.Amount)
		}
		if tx.Metadata != nil {
			c.Metadata = metadata.Metadata{}
			for k, v := range tx.Metadata {
				c.Metadata[k] = v
			}
		}
		return &c
	}
	id2 := func(v any) any {
		if b, ok := v.(*big.Int); ok {
			return big2(b)
		}
		return v
	}
	out := *l
	out.ID = big2(l.ID)
	out.Hash = append([]byte(nil), l.Hash...)
	switch p := l.Data.(type) {
	case ledger.NewTransactionLogPayload:
		am := ledger.AccountMetadata(nil)
		if p.AccountMetadata != nil {
			am = ledger.AccountMetadata{}
			for acc, m := range p.AccountMetadata {
				am[acc] = copyMeta(m)
			}
		}
		out.Data = ledger.NewTransactionLogPayload{Transaction: tx2(p.Transaction), AccountMetadata: am}
	case ledger.RevertedTransactionLogPayload:
		out.Data = ledger.RevertedTransactionLogPayload{RevertedTransactionID: big2(p.RevertedTransactionID), RevertTransaction: tx2(p.RevertTransaction)}
	case ledger.SetMetadataLogPayload:
		var md metadata.Metadata
		if p.Metadata != nil {
			md = copyMeta(p.Metadata)
		}
		out.Data = ledger.SetMetadataLogPayload{TargetType: p.TargetType, TargetID: id2(p.TargetID), Metadata: md}
	case ledger.DeleteMetadataLogPayload:
		out.Data = ledger.DeleteMetadataLogPayload{TargetType: p.TargetType, TargetID: id2(p.TargetID), Key: p.Key}
	}
	return &out
}

func (m *ModelStore) InsertLogs(ctx context.Context, logs ...*ledger.ChainedLog) error {
	res := m.sim.gateCtx(ctx, fmt.Sprintf("store.InsertLogs[%d]", len(logs)))
	gen := -1
	if ci := infoFrom(ctx); ci != nil {
		gen = ci.gen.id
	}
	m.mu.Lock()
	defer m.mu.Unlock()
	att := InsertAttempt{Logs: logs, Gen: gen, Step: m.sim.curStep()}
	switch {
	case res.kill:
		att.Outcome = "blackhole"
		m.Attempts = append(m.Attempts, att)
		return nil
	case res.fault:
		att.Outcome = "failed"
		m.Attempts = append(m.Attempts, att)
		return InsertFault(m.sim.plan.FaultKind)
	}
	att.Outcome = "committed"
	m.Attempts = append(m.Attempts, att)
	batch := len(m.Attempts) - 1
	for _, l := range logs {
		l = snapshot(l)
		m.fold.Apply(l, len(m.Entries))
		m.Entries = append(m.Entries, Persisted{Log: l, Batch: batch, Gen: gen, Step: att.Step})
	}
	m.sim.recordPersist(gen, logs)
	return nil
}

// SortedKeys is a small helper for deterministic iteration.
func SortedKeys[V any](m map[string]V) []string {
	ks := make([]string, 0, len(m))
	for k := range m {
		ks = append(ks, k)
	}
	sort.Strings(ks)
	return ks
}

// Standalone builds a Commander over a fresh model store outside any
// scheduler: requests run to completion synchronously (C09 and the HTTP
// checks use it). stop() shuts the batch runner down.
func Standalone() (store *ModelStore, commander *command.Commander, stop func()) {
	s := &Sim{plan: &Plan{}}
	store = newModelStore(s)
	s.store = store
	commander, stop = StandaloneOver(store)
	return store, commander, stop
}

// StandaloneOver starts a new Commander over an existing store (a process restart).
func StandaloneOver(store *ModelStore) (commander *command.Commander, stop func()) {
	commander = command.New(store, command.NewDefaultLocker(), command.NewCompiler(64), command.NewReferencer(), bus.NewNoOpMonitor())
	ctx := logging.ContextWithLogger(context.Background(), nopLogger{})
	if err := commander.Init(ctx); err != nil {
		panic(err)
	}
	go commander.Run(ctx)
	return commander, commander.Close
}
