package enginesim

import (
	"bytes"
	"encoding/json"
	"fmt"
	"math/big"
	"sort"
	"strings"

	ledger "github.com/formancehq/ledger/internal"
	"github.com/formancehq/ledger/verifharness/storeform"
)

// Verdict is a violated oracle; Sig names the class (for known_findings).
type Verdict struct {
	Sig string
	Msg string
}

func bad(sig, format string, args ...any) *Verdict {
	return &Verdict{Sig: sig, Msg: fmt.Sprintf(format, args...)}
}

// ---------------------------------------------------------------------------
// attribution of persisted entries to requests

func entryTx(cl *ledger.ChainedLog) *ledger.Transaction {
	switch p := cl.Data.(type) {
	case ledger.NewTransactionLogPayload:
		return p.Transaction
	case ledger.RevertedTransactionLogPayload:
		return p.RevertTransaction
	}
	return nil
}

// Attribution maps every persisted entry to the requests that can have
// produced it, using only request-chosen content (tags, targets, keys).
type Attribution struct {
	ByEntry [][]int       // entry index -> candidate op indexes
	ByOp    map[int][]int // op index -> entry indexes
}

func Attribute(r *Result) *Attribution {
	a := &Attribution{ByOp: map[int][]int{}}
	for ei, e := range r.Store.Entries {
		var cands []int
		switch p := e.Log.Data.(type) {
		case ledger.NewTransactionLogPayload:
			tag := p.Transaction.Metadata["tag"]
			for i, op := range r.Plan.Ops {
				if op.Kind == OpCreate && op.Tag == tag {
					cands = append(cands, i)
				}
			}
		case ledger.RevertedTransactionLogPayload:
			for i, op := range r.Plan.Ops {
				if op.Kind == OpRevert && big.NewInt(r.RevertTargetOf(i)).Cmp(p.RevertedTransactionID) == 0 {
					cands = append(cands, i)
				}
			}
		case ledger.SetMetadataLogPayload:
			tag := p.Metadata["tag"]
			for i, op := range r.Plan.Ops {
				if op.Kind == OpSaveMeta && op.Meta["tag"] == tag && metaEq(op.Meta, p.Metadata) && sameTarget(&op, p.TargetType, p.TargetID) {
					cands = append(cands, i)
				}
			}
		case ledger.DeleteMetadataLogPayload:
			for i, op := range r.Plan.Ops {
				if op.Kind == OpDeleteMeta && op.Key == p.Key && sameTarget(&op, p.TargetType, p.TargetID) {
					cands = append(cands, i)
				}
			}
		}
		// a request can only have produced an entry that carries its key
		var filtered []int
		for _, i := range cands {
			if StoredKey(r.Plan.Ops[i].IK) == e.Log.IdempotencyKey && !r.Plan.Ops[i].DryRun && r.Responses[i] != nil {
				filtered = append(filtered, i)
			}
		}
		a.ByEntry = append(a.ByEntry, filtered)
		for _, i := range filtered {
			a.ByOp[i] = append(a.ByOp[i], ei)
		}
	}
	return a
}

func sameTarget(op *Op, targetType string, targetID any) bool {
	if op.TargetType != targetType {
		return false
	}
	if targetType == ledger.MetaTargetTypeTransaction {
		return idString(targetID) == fmt.Sprint(op.TargetTx)
	}
	return idString(targetID) == op.TargetAcc
}

func txJSON(tx *ledger.Transaction) string {
	if tx == nil {
		return "null"
	}
	c := *tx
	c.Reverted = false
	c.Timestamp = ledger.Time{Time: c.Timestamp.Time.UTC()}
	if c.Metadata == nil {
		c.Metadata = map[string]string{}
	}
	b, _ := json.Marshal(c)
	return string(b)
}

// ---------------------------------------------------------------------------
// C02: replay of the persisted log never overdraws

func grantOf(r *Result, a *Attribution, ei int, acc, asset string) (*big.Int, bool) {
	e := r.Store.Entries[ei]
	switch e.Log.Data.(type) {
	case ledger.RevertedTransactionLogPayload:
		for _, i := range a.ByEntry[ei] {
			if r.Plan.Ops[i].Force {
				return nil, true
			}
		}
		return new(big.Int), false
	}
	best := new(big.Int)
	for _, i := range a.ByEntry[ei] {
		if g, ok := r.Plan.Ops[i].Grants[acc+"/"+asset]; ok {
			if g == "" {
				return nil, true
			}
			v, _ := new(big.Int).SetString(g, 10)
			if v.Cmp(best) > 0 {
				best = v
			}
		}
	}
	return best, false
}

// CheckNoOverdraft folds the persisted log in order with the harness's own
// arithmetic and requires that no debit takes a non-world account below
// minus the overdraft its producing request declared.
func CheckNoOverdraft(r *Result) *Verdict {
	a := Attribute(r)
	f := NewFold()
	for ei, e := range r.Store.Entries {
		tx := entryTx(e.Log)
		if tx != nil {
			for pi, p := range tx.Postings {
				if p.Amount.Sign() < 0 {
					return bad("C02/negative-posting", "entry %d posting %d has a negative amount", ei, pi)
				}
				if p.Source != "world" && p.Amount.Sign() > 0 {
					after := new(big.Int).Sub(f.Balance(p.Source, p.Asset), p.Amount)
					grant, unbounded := grantOf(r, a, ei, p.Source, p.Asset)
					if !unbounded && after.Cmp(new(big.Int).Neg(grant)) < 0 {
						kind := "create"
						if _, ok := e.Log.Data.(ledger.RevertedTransactionLogPayload); ok {
							kind = "revert"
						}
						return bad("C02/overdraft/"+kind, "log entry %d (%s, tx %v, request(s) %v), posting %d %s->%s %s %v: %s had %v at that position of the log, overdraft granted %v", ei, kind, tx.ID, a.ByEntry[ei], pi, p.Source, p.Destination, p.Asset, p.Amount, p.Source, f.Balance(p.Source, p.Asset), grant)
					}
				}
				// apply this posting now so that later postings of the same transaction see it
				f.bal(p.Source, p.Asset).Sub(f.bal(p.Source, p.Asset), p.Amount)
				f.bal(p.Destination, p.Asset).Add(f.bal(p.Destination, p.Asset), p.Amount)
			}
		}
	}
	return nil
}

// ---------------------------------------------------------------------------
// C05: gap-free hash chain, dense transaction ids

func CheckChain(r *Result) *Verdict {
	var prev, prevRT *ledger.ChainedLog
	nextTx := big.NewInt(0)
	seenHash := map[string]int{}
	for i, e := range r.Store.Entries {
		cl := e.Log
		if cl.ID == nil || cl.ID.Cmp(big.NewInt(int64(i))) != 0 {
			return bad("C05/log-id", "entry at position %d of the persisted log carries id %v (generation %d, batch %d)", i, cl.ID, e.Gen, e.Batch)
		}
		re := cl.Log.ChainLog(prev)
		if !bytes.Equal(re.Hash, cl.Hash) {
			return bad("C05/hash", "entry %d: stored hash is not the digest of the previous stored hash and its content (generation %d, batch %d)", i, e.Gen, e.Batch)
		}
		rt, err := storeform.RoundTrip(cl)
		if err != nil {
			return bad("C05/unreadable", "entry %d cannot be read back: %v", i, err)
		}
		if re2 := rt.Log.ChainLog(prevRT); !bytes.Equal(re2.Hash, cl.Hash) {
			return bad("C05/hash-after-readback", "entry %d: hash recomputed from the stored form differs", i)
		}
		if prev != nil {
			pp := *prev
			pp.Hash = append([]byte(nil), prev.Hash...)
			pp.Hash[len(pp.Hash)-1] ^= 0x80
			if bytes.Equal(cl.Log.ChainLog(&pp).Hash, cl.Hash) {
				return bad("C05/hash-ignores-previous", "entry %d: hash does not depend on the previous hash", i)
			}
		}
		if j, dup := seenHash[string(cl.Hash)]; dup {
			return bad("C05/hash-collision", "entries %d and %d share a hash", j, i)
		}
		seenHash[string(cl.Hash)] = i
		if tx := entryTx(cl); tx != nil {
			if tx.ID == nil || tx.ID.Cmp(nextTx) != 0 {
				sig := "C05/txid-order"
				return bad(sig, "entry %d carries transaction id %v, expected %v (ids must be 0,1,2,... in log order; generation %d)", i, tx.ID, nextTx, e.Gen)
			}
			nextTx = new(big.Int).Add(nextTx, big.NewInt(1))
		}
		prev, prevRT = cl, rt
	}
	return nil
}

// ---------------------------------------------------------------------------
// C06: acknowledged <=> persisted, exactly once

// StoredKey is an idempotency key as log entries hold it: entries are kept as JSON, which has no way to spell bytes
// that are not valid UTF-8 (each run of them reads U+FFFD there).
func StoredKey(k string) string { return strings.ToValidUTF8(k, "\uFFFD") }

func ikGroups(r *Result) map[string][]int {
	g := map[string][]int{}
	for i, op := range r.Plan.Ops {
		if op.IK != "" {
			g[StoredKey(op.IK)] = append(g[StoredKey(op.IK)], i)
		}
	}
	return g
}

func opDesc(r *Result, i int) string {
	op := r.Plan.Ops[i]
	return fmt.Sprintf("#%d %s tag=%s ik=%q dry=%v", i, op.Kind, op.Tag, op.IK, op.DryRun)
}

// CheckAck verifies the bijection between successful responses and entries.
func CheckAck(r *Result) *Verdict {
	a := Attribute(r)
	// (3) every entry has a producer
	for ei, c := range a.ByEntry {
		if len(c) == 0 {
			b, _ := json.Marshal(r.Store.Entries[ei].Log)
			return bad("C06/orphan-entry", "persisted entry %d was produced by no request: %s", ei, b)
		}
	}
	used := map[int]int{} // entry -> op that claimed it
	for i, op := range r.Plan.Ops {
		resp := r.Responses[i]
		if resp == nil || resp.Lost {
			continue
		}
		entries := a.ByOp[i]
		switch {
		case resp.Answered && resp.OK && op.DryRun:
			// a preview has no entry of its own; entries it "matches" belong to its real twins
		case resp.Answered && resp.OK:
			// exactly one entry with the content the caller got back, persisted before the answer
			var match []int
			for _, ei := range entries {
				e := r.Store.Entries[ei]
				if op.Kind == OpCreate || op.Kind == OpRevert {
					if txJSON(entryTx(e.Log)) != txJSON(resp.Tx) {
						continue
					}
				}
				match = append(match, ei)
			}
			if len(match) == 0 {
				return bad("C06/ack-without-entry/"+string(op.Kind), "request %s answered success (tx %s) at step %d but no persisted entry carries that content (candidates %v)", opDesc(r, i), txJSON(resp.Tx), resp.Step, entries)
			}
			// persisted-before-ack
			ok := false
			for _, ei := range match {
				if ei < resp.PersistedLen {
					ok = true
				}
			}
			if !ok {
				return bad("C06/ack-before-persist/"+string(op.Kind), "request %s answered success at step %d when only %d entries were persisted; its entry is %v", opDesc(r, i), resp.Step, resp.PersistedLen, match)
			}
			if op.IK == "" {
				// without a key each success owns its entry
				free := -1
				for _, ei := range match {
					if _, taken := used[ei]; !taken {
						free = ei
						break
					}
				}
				if free < 0 {
					return bad("C06/two-acks-one-entry/"+string(op.Kind), "request %s answered success but its only matching entries %v already belong to request #%d", opDesc(r, i), match, used[match[0]])
				}
				used[free] = i
			}
		case resp.Answered && !resp.OK:
			// rejected => no trace; identical racing twins make attribution ambiguous, so only
			// complain when there are more entries than successful (or unanswered) producers
		}
	}
	// count per candidate set: entries sharing the same candidate set must not outnumber the
	// requests of that set that succeeded or never answered (died)
	groups := map[string][]int{}
	for ei, c := range a.ByEntry {
		groups[fmt.Sprint(c)] = append(groups[fmt.Sprint(c)], ei)
	}
	for _, eis := range groups {
		c := a.ByEntry[eis[0]]
		may := 0
		for _, i := range c {
			resp := r.Responses[i]
			if resp == nil {
				continue
			}
			if resp.Lost || !resp.Answered || resp.OK {
				may++
			}
		}
		if len(eis) > may {
			return bad("C06/entry-of-rejected-request", "entries %v can only come from requests %v, of which %d succeeded or died: a request that reported an error left an entry, or one request left two", eis, c, may)
		}
	}
	return nil
}

// ---------------------------------------------------------------------------
// C07: idempotency keys

func CheckIdempotency(r *Result, identical bool) *Verdict {
	byKey := map[string][]int{}
	for ei, e := range r.Store.Entries {
		if k := e.Log.IdempotencyKey; k != "" {
			byKey[k] = append(byKey[k], ei)
		}
	}
	for k, eis := range byKey {
		if len(eis) > 1 {
			return bad("C07/two-entries", "idempotency key %q is carried by %d persisted entries %v", k, len(eis), eis)
		}
	}
	for k, ops := range ikGroups(r) {
		eis := byKey[k]
		for _, i := range ops {
			op := r.Plan.Ops[i]
			resp := r.Responses[i]
			if resp == nil || resp.Lost || !resp.Answered || !resp.OK || op.DryRun {
				continue
			}
			if len(eis) == 0 {
				return bad("C07/success-without-effect", "request %s reported success but no entry carries key %q", opDesc(r, i), k)
			}
			e := r.Store.Entries[eis[0]]
			if tx := entryTx(e.Log); tx != nil && (op.Kind == OpCreate || op.Kind == OpRevert) {
				if identical && txJSON(tx) != txJSON(resp.Tx) {
					return bad("C07/different-outcome", "request %s reported success with %s but the single effect of key %q is %s", opDesc(r, i), txJSON(resp.Tx), k, txJSON(tx))
				}
			}
		}
	}
	return nil
}

// ---------------------------------------------------------------------------
// C10: reverts

func reversed(ps []ledger.Posting) []ledger.Posting {
	out := make([]ledger.Posting, len(ps))
	for i, p := range ps {
		out[len(ps)-1-i] = ledger.Posting{Source: p.Destination, Destination: p.Source, Asset: p.Asset, Amount: p.Amount}
	}
	return out
}

func samePostings(a, b []ledger.Posting) bool {
	if len(a) != len(b) {
		return false
	}
	for i := range a {
		if a[i].Source != b[i].Source || a[i].Destination != b[i].Destination || a[i].Asset != b[i].Asset || a[i].Amount.Cmp(b[i].Amount) != 0 {
			return false
		}
	}
	return true
}

func CheckReverts(r *Result) *Verdict {
	txEntry := map[string]int{}
	revertedBy := map[string]int{}
	for ei, e := range r.Store.Entries {
		if tx := entryTx(e.Log); tx != nil {
			if _, dup := txEntry[tx.ID.String()]; !dup {
				txEntry[tx.ID.String()] = ei
			}
		}
		p, ok := e.Log.Data.(ledger.RevertedTransactionLogPayload)
		if !ok {
			continue
		}
		id := p.RevertedTransactionID.String()
		if prev, dup := revertedBy[id]; dup {
			return bad("C10/reverted-twice", "transaction %s is reverted by entries %d and %d", id, prev, ei)
		}
		revertedBy[id] = ei
		ti, ok := txEntry[id]
		if !ok || ti >= ei {
			return bad("C10/unknown-target", "entry %d reverts transaction %s which is not in the log before it", ei, id)
		}
		orig := entryTx(r.Store.Entries[ti].Log)
		if !samePostings(p.RevertTransaction.Postings, reversed(orig.Postings)) {
			a, _ := json.Marshal(orig.Postings)
			b, _ := json.Marshal(p.RevertTransaction.Postings)
			return bad("C10/not-inverse", "entry %d reverts tx %s: original postings %s, revert postings %s", ei, id, a, b)
		}
		// balance restoration when nothing else touched the pairs in between
		touched := map[string]bool{}
		for _, q := range orig.Postings {
			touched[q.Source+"/"+q.Asset] = true
			touched[q.Destination+"/"+q.Asset] = true
		}
		clean := true
		for k := ti + 1; k < ei && clean; k++ {
			if tx := entryTx(r.Store.Entries[k].Log); tx != nil {
				for _, q := range tx.Postings {
					if touched[q.Source+"/"+q.Asset] || touched[q.Destination+"/"+q.Asset] {
						clean = false
					}
				}
			}
		}
		if clean {
			before, after := NewFold(), NewFold()
			for k := 0; k < ti; k++ {
				before.Apply(r.Store.Entries[k].Log, k)
			}
			for k := 0; k <= ei; k++ {
				after.Apply(r.Store.Entries[k].Log, k)
			}
			for pair := range touched {
				parts := strings.SplitN(pair, "/", 2)
				acc, asset := parts[0], pair[len(parts[0])+1:]
				if before.Balance(acc, asset).Cmp(after.Balance(acc, asset)) != 0 {
					return bad("C10/balance-not-restored", "after entry %d reverted tx %s, %s holds %v, before the original it held %v (nothing else touched it)", ei, id, pair, after.Balance(acc, asset), before.Balance(acc, asset))
				}
			}
		}
	}
	// losers of a race
	for i, op := range r.Plan.Ops {
		resp := r.Responses[i]
		if op.Kind != OpRevert || resp == nil || resp.Lost || !resp.Answered || op.DryRun {
			continue
		}
		if !resp.OK && op.Force && resp.ErrClass == "INSUFFICIENT_FUND" {
			// forced mode lets every account of the reversal go as far below zero as it takes
			return bad("C10/forced-refused", "forced revert request %s was refused for insufficient funds: %s", opDesc(r, i), resp.ErrText)
		}
		if resp.OK {
			ei, ok := revertedBy[fmt.Sprint(r.RevertTargetOf(i))]
			if !ok {
				return bad("C10/success-without-entry", "revert request %s succeeded but no entry reverts tx %d", opDesc(r, i), r.RevertTargetOf(i))
			}
			if op.IK == "" && txJSON(entryTx(r.Store.Entries[ei].Log)) != txJSON(resp.Tx) {
				return bad("C10/second-success", "revert request %s succeeded with %s but tx %d was reverted by %s", opDesc(r, i), txJSON(resp.Tx), r.RevertTargetOf(i), txJSON(entryTx(r.Store.Entries[ei].Log)))
			}
		}
	}
	return nil
}

// ---------------------------------------------------------------------------
// C11: references

func CheckReferences(r *Result) *Verdict {
	byRef := map[string][]int{}
	for ei, e := range r.Store.Entries {
		if tx := entryTx(e.Log); tx != nil && tx.Reference != "" {
			byRef[tx.Reference] = append(byRef[tx.Reference], ei)
		}
	}
	for ref, eis := range byRef {
		if len(eis) > 1 {
			return bad("C11/duplicate-reference", "reference %q is carried by %d committed transactions (entries %v)", ref, len(eis), eis)
		}
	}
	for i, op := range r.Plan.Ops {
		resp := r.Responses[i]
		if op.Kind != OpCreate || op.Reference == "" || resp == nil || resp.Lost || !resp.Answered || op.DryRun {
			continue
		}
		if resp.OK {
			continue
		}
		if resp.ErrClass == "CONFLICT" {
			// justified only if some other request with this reference existed before this answer
			just := false
			for j, other := range r.Plan.Ops {
				if j != i && other.Kind == OpCreate && other.Reference == op.Reference && r.Responses[j] != nil && r.SpawnStep[j] <= resp.Step {
					just = true
				}
				// ... or its idempotency key belongs to a write of another kind (refused with the same class)
				if j != i && op.IK != "" && StoredKey(other.IK) == StoredKey(op.IK) && other.Kind != op.Kind && r.Responses[j] != nil && r.SpawnStep[j] <= resp.Step {
					just = true
				}
			}
			if !just {
				return bad("C11/spurious-conflict", "request %s was refused with CONFLICT although no other request ever used reference %q before it answered", opDesc(r, i), op.Reference)
			}
		}
	}
	// a later attempt on a reference that is already committed must be CONFLICT
	for i, op := range r.Plan.Ops {
		resp := r.Responses[i]
		if op.Kind != OpCreate || op.Reference == "" || resp == nil || resp.Lost || !resp.Answered || resp.OK || op.DryRun {
			continue
		}
		eis := byRef[op.Reference]
		if len(eis) == 1 && r.Store.Entries[eis[0]].Step < r.SpawnStep[i] && resp.ErrClass != "CONFLICT" && r.SpawnGen[i] >= 0 {
			// committed strictly before this request started; the only admissible other errors are
			// those raised before the reference is looked at (in-flight idempotency key, a failing store read, a cancelled caller)
			if resp.ErrClass != "IK_IN_FLIGHT" && resp.ErrClass != "PANIC" && resp.ErrClass != "STORE_READ" && resp.ErrClass != "CANCELED" {
				return bad("C11/wrong-error", "request %s reuses committed reference %q but was answered %s (%s) instead of CONFLICT", opDesc(r, i), op.Reference, resp.ErrClass, resp.ErrText)
			}
		}
	}
	return nil
}

// ---------------------------------------------------------------------------
// C16: events

type eventEnvelope struct {
	Type    string          `json:"type"`
	Payload json.RawMessage `json:"payload"`
}

func metaEq(a, b map[string]string) bool {
	if len(a) != len(b) {
		return false
	}
	for k, v := range a {
		if w, ok := b[k]; !ok || w != v {
			return false
		}
	}
	return true
}

func accMetaEq(a, b map[string]map[string]string) bool {
	na := 0
	for k, v := range a {
		if len(v) == 0 {
			continue
		}
		na++
		if !metaEq(v, b[k]) {
			return false
		}
	}
	nb := 0
	for _, v := range b {
		if len(v) > 0 {
			nb++
		}
	}
	return na == nb
}

// CheckEvents: every publication matches an entry persisted at that moment;
// every entry of a request that answered success is published at least once.
func CheckEvents(r *Result) *Verdict {
	// which entries each publication can stand for (content equal, persisted when it was published)
	cand := make([][]int, len(r.Publications))
	for pi, pub := range r.Publications {
		if pub.Lost {
			continue
		}
		var env eventEnvelope
		if err := json.Unmarshal(pub.Payload, &env); err != nil {
			return bad("C16/undecodable", "publication %d cannot be decoded: %v", pi, err)
		}
		var why string
		for ei := 0; ei < pub.PersistedLen && ei < len(r.Store.Entries); ei++ {
			ok, reason := eventMatches(env, r.Store.Entries[ei].Log)
			if ok {
				cand[pi] = append(cand[pi], ei)
			} else if reason != "" {
				why = reason
			}
		}
		if len(cand[pi]) == 0 {
			cl := -1
			if pub.Client >= 0 {
				cl = pub.Client
			}
			sig := "C16/no-entry/" + env.Type
			if cl >= 0 && r.Plan.Ops[cl].DryRun {
				sig = "C16/preview-published/" + env.Type
			}
			return bad(sig, "publication %d (%s by request #%d at step %d, %d entries persisted) matches no persisted entry%s: %s", pi, env.Type, cl, pub.Step, pub.PersistedLen, why, pub.Payload)
		}
	}
	// at least once: every entry whose producing request lived to answer needs a publication of its own (entries
	// with equal content are interchangeable, so this is a matching problem: augmenting paths, sizes are tiny)
	a := Attribute(r)
	owedHow := map[int]string{}
	// an entry is owed a publication when the request that produced it lived to answer. Requests with equal content
	// are interchangeable as producers, and a request produces at most one entry: first the requests that answered
	// success are matched to entries (augmenting paths again) ...
	lived := func(i int) bool { resp := r.Responses[i]; return resp != nil && resp.Answered && !resp.Lost }
	entryOf := map[int]int{} // request -> entry
	var give func(ei int, seen map[int]bool) bool
	give = func(ei int, seen map[int]bool) bool {
		for _, i := range a.ByEntry[ei] {
			if seen[i] || !lived(i) || !r.Responses[i].OK || r.Plan.Ops[i].DryRun {
				continue
			}
			seen[i] = true
			if other, taken := entryOf[i]; !taken || give(other, seen) {
				entryOf[i] = ei
				return true
			}
		}
		return false
	}
	for ei := range r.Store.Entries {
		if give(ei, map[int]bool{}) {
			owedHow[ei] = "success"
		}
	}
	// ... then: an entry all of whose possible producers lived to answer was not cut short by a crash either,
	// whatever its producer answered (a request that persists its entry and then reports an error owes the event too)
	for ei := range r.Store.Entries {
		if _, ok := owedHow[ei]; ok || len(a.ByEntry[ei]) == 0 {
			continue
		}
		all, how := true, ""
		for _, i := range a.ByEntry[ei] {
			if !lived(i) {
				all = false
			} else if !r.Responses[i].OK {
				how = "error " + r.Responses[i].ErrClass
			}
		}
		if all && how != "" {
			owedHow[ei] = how
		}
	}
	pubsOf := map[int][]int{}
	for pi, es := range cand {
		for _, ei := range es {
			pubsOf[ei] = append(pubsOf[ei], pi)
		}
	}
	pubTaken := map[int]int{} // publication -> entry
	var try func(ei int, seen map[int]bool) bool
	try = func(ei int, seen map[int]bool) bool {
		for _, pi := range pubsOf[ei] {
			if seen[pi] {
				continue
			}
			seen[pi] = true
			if other, taken := pubTaken[pi]; !taken || try(other, seen) {
				pubTaken[pi] = ei
				return true
			}
		}
		return false
	}
	for ei := range r.Store.Entries {
		if _, owed := owedHow[ei]; !owed {
			continue
		}
		if !try(ei, map[int]bool{}) {
			b, _ := json.Marshal(r.Store.Entries[ei].Log)
			return bad("C16/not-published", "persisted entry %d was never published although its request lived to answer (%s): %s", ei, owedHow[ei], b)
		}
	}
	return nil
}

func eventMatches(env eventEnvelope, cl *ledger.ChainedLog) (bool, string) {
	switch env.Type {
	case "COMMITTED_TRANSACTIONS":
		p, ok := cl.Data.(ledger.NewTransactionLogPayload)
		if !ok {
			return false, ""
		}
		var pl struct {
			Ledger          string                       `json:"ledger"`
			Transactions    []ledger.Transaction         `json:"transactions"`
			AccountMetadata map[string]map[string]string `json:"accountMetadata"`
		}
		if err := json.Unmarshal(env.Payload, &pl); err != nil || len(pl.Transactions) != 1 {
			return false, " (payload malformed)"
		}
		if pl.Transactions[0].ID == nil || pl.Transactions[0].ID.Cmp(p.Transaction.ID) != 0 {
			return false, ""
		}
		if txJSON(&pl.Transactions[0]) != txJSON(p.Transaction) {
			return false, " (transaction content differs from entry)"
		}
		am := map[string]map[string]string{}
		for k, v := range p.AccountMetadata {
			am[k] = v
		}
		if !accMetaEq(pl.AccountMetadata, am) {
			return false, " (account metadata differs from entry)"
		}
		if pl.Ledger != "verif-ledger" {
			return false, " (wrong ledger name)"
		}
		return true, ""
	case "REVERTED_TRANSACTION":
		p, ok := cl.Data.(ledger.RevertedTransactionLogPayload)
		if !ok {
			return false, ""
		}
		var pl struct {
			Ledger              string             `json:"ledger"`
			RevertedTransaction ledger.Transaction `json:"revertedTransaction"`
			RevertTransaction   ledger.Transaction `json:"revertTransaction"`
		}
		if err := json.Unmarshal(env.Payload, &pl); err != nil {
			return false, " (payload malformed)"
		}
		if pl.RevertTransaction.ID == nil || pl.RevertedTransaction.ID == nil {
			return false, " (ids missing)"
		}
		if pl.RevertTransaction.ID.Cmp(p.RevertTransaction.ID) != 0 && pl.RevertedTransaction.ID.Cmp(p.RevertTransaction.ID) != 0 {
			return false, ""
		}
		if pl.RevertedTransaction.ID.Cmp(p.RevertedTransactionID) != 0 {
			return false, fmt.Sprintf(" (event says tx %v was reverted, the entry says %v)", pl.RevertedTransaction.ID, p.RevertedTransactionID)
		}
		if txJSON(&pl.RevertTransaction) != txJSON(p.RevertTransaction) {
			return false, " (reverting transaction differs from entry)"
		}
		return true, ""
	case "SAVED_METADATA":
		p, ok := cl.Data.(ledger.SetMetadataLogPayload)
		if !ok {
			return false, ""
		}
		var pl struct {
			Ledger     string            `json:"ledger"`
			TargetType string            `json:"targetType"`
			TargetID   string            `json:"targetId"`
			Metadata   map[string]string `json:"metadata"`
		}
		if err := json.Unmarshal(env.Payload, &pl); err != nil {
			return false, " (payload malformed)"
		}
		if pl.TargetType != p.TargetType || pl.TargetID != idString(p.TargetID) || !metaEq(pl.Metadata, p.Metadata) {
			return false, ""
		}
		return true, ""
	case "DELETED_METADATA":
		p, ok := cl.Data.(ledger.DeleteMetadataLogPayload)
		if !ok {
			return false, ""
		}
		var pl struct {
			Ledger     string `json:"ledger"`
			TargetType string `json:"targetType"`
			TargetID   any    `json:"targetId"`
			Key        string `json:"key"`
		}
		dec := json.NewDecoder(bytes.NewReader(env.Payload))
		dec.UseNumber()
		if err := dec.Decode(&pl); err != nil {
			return false, " (payload malformed)"
		}
		if pl.TargetType != p.TargetType || fmt.Sprint(pl.TargetID) != idString(p.TargetID) || pl.Key != p.Key {
			return false, ""
		}
		return true, ""
	}
	return false, " (unknown event type)"
}

// ---------------------------------------------------------------------------
// helpers for labels / non-triviality

// Overlaps tells whether two requests were in flight at the same time.
func Overlaps(r *Result, i, j int) bool {
	ri, rj := r.Responses[i], r.Responses[j]
	if ri == nil || rj == nil {
		return false
	}
	return r.SpawnStep[i] < rj.Step && r.SpawnStep[j] < ri.Step
}

// TraceKey is a canonical text of what happened (ops + schedule).
func TraceKey(r *Result) string {
	var sb strings.Builder
	sb.WriteString(PlanKey(r.Plan))
	for _, e := range r.Events {
		if e.Kind == "gate" || e.Kind == "spawn" || e.Kind == "crash" || e.Kind == "fault" {
			fmt.Fprintf(&sb, "%d.%s;", e.Client, e.Point)
		}
	}
	return sb.String()
}

// ErrClasses lists the distinct error classes of answered requests.
func ErrClasses(r *Result) []string {
	m := map[string]bool{}
	for _, resp := range r.Responses {
		if resp != nil && resp.Answered && !resp.OK {
			m[resp.ErrClass] = true
		}
	}
	out := make([]string, 0, len(m))
	for k := range m {
		out = append(out, k)
	}
	sort.Strings(out)
	return out
}
