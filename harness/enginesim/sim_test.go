package enginesim

import (
	"encoding/json"
	"testing"

	"pgregory.net/rapid"
)

func fundOp(acc string, amt string) Op {
	return Op{Kind: OpCreate, Script: "send [USD " + amt + "] (\n source = @world\n destination = @" + acc + "\n)", Tag: "fund-" + acc}
}

func TestSimSmoke(t *testing.T) {
	plan := &Plan{
		Ops: []Op{
			fundOp("a", "100"),
			{Kind: OpCreate, Script: "send [USD 80] (\n source = @a\n destination = @b\n)", Tag: "t1", Barrier: 1},
			{Kind: OpCreate, Script: "send [USD 80] (\n source = @a\n destination = @c\n)", Tag: "t2", Barrier: 1},
			{Kind: OpRevert, TargetTx: 0, Barrier: 3},
			{Kind: OpSaveMeta, TargetType: "ACCOUNT", TargetAcc: "a", Meta: map[string]string{"k": "v"}, Barrier: 4},
		},
		Choices: []int{0, 0, 0, 0, 0, 0, 0, 0, 0, 0, 0, 0, 0, 0},
	}
	res := Run(t, plan)
	b, _ := json.MarshalIndent(RenderResult(res), "", " ")
	t.Logf("%s", b)
	if res.HarnessErr != "" {
		t.Fatal(res.HarnessErr)
	}
}

func TestSimRandom(t *testing.T) {
	dbl := 0
	rapid.Check(t, func(rt *rapid.T) {
		plan := &Plan{
			Ops: []Op{
				fundOp("a", "100"),
				{Kind: OpCreate, Script: "send [USD 80] (\n source = @a\n destination = @b\n)", Tag: "t1", Barrier: 1},
				{Kind: OpCreate, Script: "send [USD 80] (\n source = @a\n destination = @c\n)", Tag: "t2", Barrier: 1},
			},
			Choices: rapid.SliceOfN(rapid.IntRange(0, 7), 60, 60).Draw(rt, "choices"),
		}
		if rapid.Bool().Draw(rt, "crash") {
			plan.CrashAt = []int{rapid.IntRange(0, 40).Draw(rt, "crashAt")}
		}
		if rapid.IntRange(0, 4).Draw(rt, "fault") == 0 {
			plan.FaultAt = []int{rapid.IntRange(0, 2).Draw(rt, "faultAt")}
		}
		res := Run(t, plan)
		if res.HarnessErr != "" {
			rt.Fatalf("harness: %s", res.HarnessErr)
		}
		if res.Store.FoldNow().Balance("a", "USD").Sign() < 0 {
			dbl++
		}
	})
	t.Logf("double spends: %d", dbl)
}
