// Package enginesim runs the real command.Commander (with its real locker,
// referencer, compiler, batcher and job runner) inside a testing/synctest
// bubble against a model store, and lets a generated list of choices decide
// every scheduling step, crash point and store fault.
package enginesim

import (
	"context"
	"encoding/json"
	"errors"
	"fmt"
	"math/big"
	"runtime"
	"sort"
	"strings"
	"sync"
	"testing"
	"testing/synctest"
	"time"

	"github.com/ThreeDotsLabs/watermill/message"
	"github.com/alitto/pond"
	ledger "github.com/formancehq/ledger/internal"
	"github.com/formancehq/ledger/internal/bus"
	"github.com/formancehq/ledger/internal/engine/command"
	"github.com/formancehq/ledger/internal/engine/utils/batching"
	"github.com/formancehq/ledger/internal/machine"
	"github.com/formancehq/ledger/verifharness/hookctx"
	"github.com/formancehq/stack/libs/go-libs/logging"
	"github.com/formancehq/stack/libs/go-libs/metadata"
)

// ---------------------------------------------------------------------------
// plan

type OpKind string

const (
	OpCreate     OpKind = "create"
	OpRevert     OpKind = "revert"
	OpSaveMeta   OpKind = "save_meta"
	OpDeleteMeta OpKind = "delete_meta"
)

// Op is one client request.
type Op struct {
	Kind   OpKind `json:"kind"`
	DryRun bool   `json:"dryRun,omitempty"`
	IK     string `json:"ik,omitempty"`
	// Barrier: the op may start only when every op with a smaller index than
	// Barrier has answered (or can never answer). Barrier == own index means
	// "after everything before me"; a smaller value makes it concurrent.
	Barrier int `json:"barrier"`

	// create
	Script    string            `json:"script,omitempty"`
	Vars      map[string]string `json:"vars,omitempty"`
	Postings  []ledger.Posting  `json:"postings,omitempty"` // posting mode (through TxToScriptData)
	Reference string            `json:"reference,omitempty"`
	Timestamp string            `json:"timestamp,omitempty"`
	Metadata  map[string]string `json:"metadata,omitempty"`
	// Grants: overdraft the script gives an account ("" amount = unbounded).
	Grants map[string]string `json:"grants,omitempty"`

	// revert
	TargetTx  int64  `json:"targetTx,omitempty"`
	TargetRef string `json:"targetRef,omitempty"` // reverts: the committed transaction carrying this reference, if any (else TargetTx)
	Force     bool   `json:"force,omitempty"`

	// metadata
	TargetType string            `json:"targetType,omitempty"`
	TargetAcc  string            `json:"targetAcc,omitempty"`
	Meta       map[string]string `json:"meta,omitempty"`
	Key        string            `json:"key,omitempty"`

	// Tag identifies the request inside log entries (request metadata "tag").
	Tag string `json:"tag"`
}

// Plan is everything that determines one simulated history.
type Plan struct {
	Ops               []Op     `json:"ops"`
	Choices           []int    `json:"choices"`
	CrashAt           []int    `json:"crashAt,omitempty"`           // scheduler steps at which the process dies and restarts
	FaultAt           []int    `json:"faultAt,omitempty"`           // indexes (0-based) of InsertLogs calls that fail
	FaultKind         int      `json:"faultKind,omitempty"`         // what a failing InsertLogs returns: 0 a plain error, 1 a wrapped context.Canceled, 2 a wrapped context.DeadlineExceeded, 3 a wrapped sql.ErrTxDone, 4 io.ErrUnexpectedEOF
	ReadFaultAt       []int    `json:"readFaultAt,omitempty"`       // indexes (0-based) of store reads issued by requests that fail
	CancelAt          [][2]int `json:"cancelAt,omitempty"`          // (op index, step) context cancellations
	CloseAt           []int    `json:"closeAt,omitempty"`           // steps at which the running process is shut down gracefully (Commander.Close while requests are in flight), then restarted
	CloseAfterHandoff [][2]int `json:"closeAfterHandoff,omitempty"` // (k, d): a graceful shutdown d steps after the k-th log was handed to the batcher
	SlowStore         bool     `json:"slowStore,omitempty"`         // batch inserts complete late (see the scheduler)
	CancelAfter       [][2]int `json:"cancelAfter,omitempty"`       // (op index, k): the caller of that request goes away when the request passes its k-th scheduling point
	CancelAtHandoff   []int    `json:"cancelAtHandoff,omitempty"`   // k: the caller of the request whose log is the k-th handed to the batcher goes away right then (entry in flight, nobody waiting for it)
	ReadFaultOf       [][2]int `json:"readFaultOf,omitempty"`       // (op index, k): the k-th store read issued by that request fails
	Hold              [][3]int `json:"hold,omitempty"`              // (op index, k, d): once that request has passed k of its scheduling points it is slow: it is not scheduled for the next d steps in which anything else can move
	TickClock         bool     `json:"tickClock,omitempty"`         // the clock advances by one millisecond at every scheduler step (requests that start later read a later time)
	BatchSize         int      `json:"batchSize,omitempty"`         // 0 = production value
	CacheSize         int      `json:"cacheSize,omitempty"`         // 0 = 1024
	MaxSteps          int      `json:"maxSteps,omitempty"`
	// DeathGrace: how many more steps requests that are already past their persistence wait may
	// take after the batch runner died (a dying process does not stop its goroutines atomically).
	DeathGrace int `json:"deathGrace,omitempty"`
	// RestartBefore: op indexes in front of which the process is stopped and started again.
	RestartBefore []int `json:"restartBefore,omitempty"`
	NoLock        bool  `json:"-"`
}

// ---------------------------------------------------------------------------
// history

type Response struct {
	Answered     bool                `json:"answered"`
	OK           bool                `json:"ok"`
	ErrClass     string              `json:"errClass,omitempty"`
	ErrText      string              `json:"errText,omitempty"`
	Tx           *ledger.Transaction `json:"tx,omitempty"`
	Step         int                 `json:"step"`
	Gen          int                 `json:"gen"`
	Lost         bool                `json:"lost,omitempty"` // produced by a generation that was already dead
	PersistedLen int                 `json:"persistedLen"`   // entries persisted when the response was produced
}

type Event struct {
	Step   int    `json:"step"`
	Gen    int    `json:"gen"`
	Client int    `json:"client"`
	Kind   string `json:"kind"`
	Point  string `json:"point,omitempty"`
}

type Publication struct {
	Step         int             `json:"step"`
	Gen          int             `json:"gen"`
	Client       int             `json:"client"`
	Topic        string          `json:"topic"`
	Payload      json.RawMessage `json:"payload"`
	PersistedLen int             `json:"persistedLen"`
	Lost         bool            `json:"lost,omitempty"`
}

type LockCall struct {
	Client      int
	Read        []string
	Write       []string
	Step        int
	Granted     bool
	GrantStep   int
	ReleaseStep int
}

// Result is what a run produced; all oracles are functions of it.
type Result struct {
	Plan           *Plan
	Responses      []*Response // by op index (nil = never spawned)
	Events         []Event
	Publications   []Publication
	Store          *ModelStore
	LockCalls      []*LockCall
	Steps          int
	Generations    int
	BudgetHit      bool
	Stuck          []int // ops that were spawned, never answered, in a generation that was alive at the end
	ClockMoved     bool
	HarnessErr     string
	SpawnStep      []int
	SpawnGen       []int
	CrashSteps     []int
	RevertTargets  map[int]int64 // per revert request: the transaction id it actually named
	Faults         int
	CancelledWaits int // waits for persistence that were entered by a request whose caller had gone away
	ReadFaults     int
	Closes         int
	Cancels        int
	Holds          int // scheduler steps at which a held (slow) request was passed over
	// LeakedWorkers counts generations whose batch worker could not be stopped because the
	// runner loop had died by a panic that was not a store failure.
	LeakedWorkers int
}

// ---------------------------------------------------------------------------
// simulation state

type generation struct {
	id         int
	commander  *command.Commander
	dead       bool
	runnerDead bool
	runnerErr  any
	pool       *pond.WorkerPool
	runCtx     context.Context
	clients    []*clientInfo
	closing    bool          // Commander.Close() has been called (graceful shutdown in progress)
	closed     chan struct{} // closed when that call has returned
}

type clientInfo struct {
	id     int // op index; -1 for the batch runner
	gen    *generation
	sim    *Sim
	cancel context.CancelFunc
	done   bool
	passed int // scheduling points of this request released so far
	reads  int // store reads issued by this request so far
}

type gateResult struct {
	kill  bool
	fault bool
}

type gate struct {
	ci    *clientInfo
	point string
	seq   int
	ch    chan gateResult
	await <-chan struct{}
	cond  func() bool // extra enabling condition, evaluated by the scheduler at quiescence
}

type ctxKey struct{}

func infoFrom(ctx context.Context) *clientInfo {
	ci, _ := ctx.Value(ctxKey{}).(*clientInfo)
	return ci
}

func withInfo(ctx context.Context, ci *clientInfo) context.Context {
	return hookctx.With(context.WithValue(ctx, ctxKey{}, ci), ci)
}

// Sim is one simulated history in progress.
type Sim struct {
	mu      sync.Mutex
	parked  []*gate
	seq     int
	step    int
	res     *Result
	store   *ModelStore
	cur     *generation
	gens    []*generation
	plan    *Plan
	inserts int
	reads   int
	trace   bool
}

func (ci *clientInfo) Yield(ctx context.Context, point string) {
	if point == "lock.enqueue" {
		// inside the locker's own mutex, whose unlock is not deferred: a request parked (and
		// possibly killed) here would leave the mutex locked. That atomicity is C15's subject.
		return
	}
	ci.sim.gate(ci, point, nil)
}

// Await parks the request until the channel it is about to wait on is closed -- or until its caller has
// gone away: code that waits with `select { case <-ch: case <-ctx.Done(): }` moves on then, code that
// waits with a bare `<-ch` just blocks there a little later.
func (ci *clientInfo) Await(ctx context.Context, point string, ch <-chan struct{}) {
	ready := func() bool {
		select {
		case <-ch:
			return true
		case <-ctx.Done():
			return true
		default:
			return false
		}
	}
	ci.sim.gateCond(ci, point, ready)
	select {
	case <-ch:
	default:
		// released by the cancellation: if the channel never closes (a crash swallowed the batch), the
		// goroutine stays blocked on it for good; the history is judged all the same
		ci.sim.mu.Lock()
		if ci.sim.res != nil {
			ci.sim.res.CancelledWaits++
		}
		ci.sim.mu.Unlock()
	}
}

func (ci *clientInfo) BeforeLock(ctx context.Context, name string, mu *sync.Mutex) {
	free := func() bool {
		if mu.TryLock() {
			mu.Unlock()
			return true
		}
		return false
	}
	// Exactly one simulated goroutine runs at a time, so once the mutex is
	// seen free here the Lock that follows cannot block.
	for !free() {
		ci.sim.gateCond(ci, "mutex."+name, free)
	}
}

func (ci *clientInfo) Expose(ctx context.Context, name string, v any) {
	if name == "job.pool" {
		if p, ok := v.(*pond.WorkerPool); ok {
			ci.sim.mu.Lock()
			ci.gen.pool = p
			ci.sim.mu.Unlock()
		}
	}
}

func install() { hookctx.Install() }

func (s *Sim) curStep() int { s.mu.Lock(); defer s.mu.Unlock(); return s.step }

func (s *Sim) gateCtx(ctx context.Context, point string) gateResult {
	ci := infoFrom(ctx)
	if ci == nil {
		return gateResult{}
	}
	return s.gate(ci, point, nil)
}

func (s *Sim) gateCond(ci *clientInfo, point string, cond func() bool) gateResult {
	return s.park(&gate{ci: ci, point: point, ch: make(chan gateResult, 1), cond: cond})
}

// gate parks the calling goroutine until the scheduler releases it.
func (s *Sim) gate(ci *clientInfo, point string, await <-chan struct{}) gateResult {
	return s.park(&gate{ci: ci, point: point, ch: make(chan gateResult, 1), await: await})
}

func (s *Sim) park(g *gate) gateResult {
	ci := g.ci
	s.mu.Lock()
	s.seq++
	g.seq = s.seq
	s.parked = append(s.parked, g)
	s.mu.Unlock()
	r := <-g.ch
	if r.kill && ci.id >= 0 {
		// the process this request was running in has died
		runtime.Goexit()
	}
	return r
}

// RevertTargetOf is the transaction id revert request i named (its TargetTx unless it designated its target by reference).
func (r *Result) RevertTargetOf(i int) int64 {
	if t, ok := r.RevertTargets[i]; ok {
		return t
	}
	return r.Plan.Ops[i].TargetTx
}

func (s *Sim) event(gen, client int, kind, point string) {
	s.res.Events = append(s.res.Events, Event{Step: s.step, Gen: gen, Client: client, Kind: kind, Point: point})
}

func (s *Sim) recordPersist(gen int, logs []*ledger.ChainedLog) {
	s.mu.Lock()
	defer s.mu.Unlock()
	if s.res == nil {
		return // standalone store
	}
	ids := make([]string, len(logs))
	for i, l := range logs {
		ids[i] = l.ID.String()
	}
	s.event(gen, -1, "persist", strings.Join(ids, ","))
}

// ---------------------------------------------------------------------------
// recording publisher, recording locker

type publisher struct{ sim *Sim }

func (p publisher) Publish(topic string, msgs ...*message.Message) error {
	for _, m := range msgs {
		ci := infoFrom(m.Context())
		client, gen, lost := -1, -1, false
		if ci != nil {
			ci.sim.gate(ci, "monitor.publish", nil)
			client, gen = ci.id, ci.gen.id
		}
		plen := p.sim.store.Len()
		p.sim.mu.Lock()
		if ci != nil {
			lost = ci.gen.dead
		}
		p.sim.res.Publications = append(p.sim.res.Publications, Publication{
			Step: p.sim.step, Gen: gen, Client: client, Topic: topic,
			Payload: append(json.RawMessage(nil), m.Payload...), PersistedLen: plen, Lost: lost,
		})
		p.sim.mu.Unlock()
	}
	return nil
}

func (p publisher) Close() error { return nil }

type recLocker struct {
	inner command.Locker
	sim   *Sim
}

func (l recLocker) Lock(ctx context.Context, accounts command.Accounts) (command.Unlock, error) {
	ci := infoFrom(ctx)
	lc := &LockCall{Client: -1, Read: append([]string(nil), accounts.Read...), Write: append([]string(nil), accounts.Write...)}
	if ci != nil {
		lc.Client = ci.id
	}
	l.sim.mu.Lock()
	lc.Step = l.sim.step
	l.sim.res.LockCalls = append(l.sim.res.LockCalls, lc)
	l.sim.mu.Unlock()
	unlock, err := l.inner.Lock(ctx, accounts)
	if err != nil {
		return nil, err
	}
	l.sim.mu.Lock()
	lc.Granted = true
	lc.GrantStep = l.sim.step
	lc.ReleaseStep = -1
	l.sim.mu.Unlock()
	return func(ctx context.Context) {
		l.sim.mu.Lock()
		lc.ReleaseStep = l.sim.step
		l.sim.mu.Unlock()
		unlock(ctx)
	}, nil
}

// ---------------------------------------------------------------------------
// discarding logger

type nopLogger struct{}

func (nopLogger) Debugf(string, ...any)                        {}
func (nopLogger) Infof(string, ...any)                         {}
func (nopLogger) Errorf(string, ...any)                        {}
func (nopLogger) Debug(...any)                                 {}
func (nopLogger) Info(...any)                                  {}
func (nopLogger) Error(...any)                                 {}
func (l nopLogger) WithFields(map[string]any) logging.Logger   { return l }
func (l nopLogger) WithField(string, any) logging.Logger       { return l }
func (l nopLogger) WithContext(context.Context) logging.Logger { return l }

// ---------------------------------------------------------------------------
// generations

func (s *Sim) newGeneration() error {
	g := &generation{id: len(s.gens)}
	cache := s.plan.CacheSize
	if cache <= 0 {
		cache = 1024
	}
	var locker command.Locker = recLocker{inner: command.NewDefaultLocker(), sim: s}
	if s.plan.NoLock {
		locker = command.NoOpLocker
	}
	mon := bus.NewLedgerMonitor(publisher{sim: s}, "verif-ledger")
	g.commander = command.New(s.store, locker, command.NewCompiler(cache), command.NewReferencer(), mon)
	if s.plan.BatchSize > 0 {
		g.commander.Batcher = batching.NewBatcher(s.store.InsertLogs, 1, s.plan.BatchSize)
	}
	initCtx := logging.ContextWithLogger(context.Background(), nopLogger{})
	if err := g.commander.Init(initCtx); err != nil {
		return fmt.Errorf("Init: %w", err)
	}
	runner := &clientInfo{id: -1, gen: g, sim: s}
	g.runCtx = withInfo(initCtx, runner)
	s.mu.Lock()
	s.gens = append(s.gens, g)
	s.cur = g
	s.event(g.id, -1, "generation", "")
	s.mu.Unlock()
	go func() {
		defer func() {
			if e := recover(); e != nil {
				s.mu.Lock()
				g.runnerDead = true
				g.runnerErr = e
				s.mu.Unlock()
			}
		}()
		g.commander.Run(g.runCtx)
	}()
	return nil
}

// kill declares a generation dead and unwinds everything that belongs to it.
func (s *Sim) kill(g *generation) string {
	s.mu.Lock()
	g.dead = true
	clients := append([]*clientInfo(nil), g.clients...)
	runnerDead := g.runnerDead || g.closing // a commander that was closed gracefully has no runner loop any more
	pool := g.pool
	s.mu.Unlock()
	for _, c := range clients {
		c.cancel()
	}
	closed := make(chan struct{})
	go func() {
		defer close(closed)
		if !runnerDead {
			g.commander.Close()
		} else if pool != nil {
			pool.StopAndWait()
		}
	}()
	for i := 0; ; i++ {
		synctest.Wait()
		s.mu.Lock()
		var mine, rest []*gate
		for _, p := range s.parked {
			if p.ci.gen.dead {
				mine = append(mine, p)
			} else {
				rest = append(rest, p)
			}
		}
		s.parked = rest
		s.mu.Unlock()
		isClosed := false
		select {
		case <-closed:
			isClosed = true
		default:
		}
		if len(mine) == 0 {
			if isClosed {
				return ""
			}
			if runnerDead {
				// the runner loop died by a panic of its own while a batch worker was still waiting
				// for work: that worker can never be stopped (its job channel is unreachable).
				// The history is still judged; the goroutines are left behind and counted.
				s.mu.Lock()
				s.res.LeakedWorkers++
				s.mu.Unlock()
				return ""
			}
			return "generation could not be shut down (runner blocked)"
		}
		for _, p := range mine {
			p.ch <- gateResult{kill: true}
		}
		if i > 10000 {
			return "generation drain did not terminate"
		}
	}
}

// ---------------------------------------------------------------------------
// clients

func classify(err error) string {
	switch {
	case err == nil:
		return ""
	case command.IsErrMachine(err):
		if machine.IsInsufficientFundError(err) {
			return "INSUFFICIENT_FUND"
		}
		if machine.IsMetadataOverride(err) {
			return "METADATA_OVERRIDE"
		}
		return "MACHINE"
	case command.IsInvalidTransactionError(err, command.ErrInvalidTransactionCodeConflict):
		return "CONFLICT"
	case command.IsInvalidTransactionError(err, command.ErrInvalidTransactionCodeNoPostings):
		return "NO_POSTINGS"
	case command.IsInvalidTransactionError(err, command.ErrInvalidTransactionCodeNoScript):
		return "NO_SCRIPT"
	case command.IsInvalidTransactionError(err, command.ErrInvalidTransactionCodeCompilationFailed):
		return "COMPILATION_FAILED"
	case command.IsRevertError(err, command.ErrRevertTransactionCodeAlreadyReverted):
		return "ALREADY_REVERTED"
	case command.IsRevertError(err, command.ErrRevertTransactionCodeOccurring):
		return "REVERT_OCCURRING"
	case command.IsRevertError(err, command.ErrRevertTransactionCodeNotFound):
		return "REVERT_NOT_FOUND"
	case command.IsSaveMetaError(err, command.ErrSaveMetaCodeTransactionNotFound):
		return "META_TX_NOT_FOUND"
	case command.IsDeleteMetaError(err, command.ErrDeleteMetaCodeTransactionNotFound):
		return "META_TX_NOT_FOUND"
	}
	if strings.Contains(err.Error(), "already taken") {
		return "IK_IN_FLIGHT"
	}
	if strings.Contains(err.Error(), "context canceled") {
		return "CANCELED"
	}
	if errors.Is(err, ErrInjectedRead) || strings.Contains(err.Error(), ErrInjectedRead.Error()) {
		return "STORE_READ"
	}
	return "OTHER"
}

// RunScriptOf builds the RunScript an op submits.
func RunScriptOf(op *Op) ledger.RunScript {
	md := metadata.Metadata{}
	for k, v := range op.Metadata {
		md[k] = v
	}
	if op.Tag != "" {
		md["tag"] = op.Tag
	}
	var ts ledger.Time
	if op.Timestamp != "" {
		ts, _ = ledger.ParseTime(op.Timestamp)
	}
	if len(op.Postings) > 0 {
		return ledger.TxToScriptData(ledger.TransactionData{Postings: op.Postings, Metadata: md, Timestamp: ts, Reference: op.Reference}, false)
	}
	vars := map[string]string{}
	for k, v := range op.Vars {
		vars[k] = v
	}
	return ledger.RunScript{
		Script:    ledger.Script{Plain: op.Script, Vars: vars},
		Timestamp: ts,
		Metadata:  md,
		Reference: op.Reference,
	}
}

func copyTx(tx *ledger.Transaction) *ledger.Transaction {
	if tx == nil {
		return nil
	}
	b, _ := json.Marshal(tx)
	out := &ledger.Transaction{}
	_ = json.Unmarshal(b, out)
	return out
}

func (s *Sim) spawn(i int) {
	op := &s.plan.Ops[i]
	g := s.cur
	ci := &clientInfo{id: i, gen: g, sim: s}
	ctx := logging.ContextWithLogger(context.Background(), nopLogger{})
	ctx = withInfo(ctx, ci)
	ctx, ci.cancel = context.WithCancel(ctx)
	s.mu.Lock()
	g.clients = append(g.clients, ci)
	s.res.SpawnStep[i] = s.step
	s.res.SpawnGen[i] = g.id
	s.event(g.id, i, "spawn", string(op.Kind))
	s.mu.Unlock()
	resp := &Response{Gen: g.id}
	s.res.Responses[i] = resp
	go func() {
		returned := false
		defer func() {
			r := recover()
			plen := s.store.Len()
			s.mu.Lock()
			defer s.mu.Unlock()
			ci.done = true
			resp.Step = s.step
			resp.PersistedLen = plen
			resp.Lost = g.dead
			switch {
			case r != nil:
				resp.Answered, resp.OK = true, false
				resp.ErrClass, resp.ErrText = "PANIC", fmt.Sprint(r)
			case !returned:
				// runtime.Goexit: the process died under this request
				resp.Answered = false
			}
			s.event(g.id, i, "response", resp.ErrClass)
		}()
		params := command.Parameters{DryRun: op.DryRun, IdempotencyKey: op.IK}
		var err error
		var tx *ledger.Transaction
		switch op.Kind {
		case OpCreate:
			tx, err = g.commander.CreateTransaction(ctx, params, RunScriptOf(op))
		case OpRevert:
			target := op.TargetTx
			if op.TargetRef != "" {
				// the client reverts "the transaction it created under reference R": it knows the id from the answer
				if id, ok := s.store.txByReference(op.TargetRef); ok {
					target = id
				}
			}
			s.mu.Lock()
			s.res.RevertTargets[i] = target
			s.mu.Unlock()
			tx, err = g.commander.RevertTransaction(ctx, params, big.NewInt(target), op.Force)
		case OpSaveMeta:
			md := metadata.Metadata{}
			for k, v := range op.Meta {
				md[k] = v
			}
			if op.TargetType == ledger.MetaTargetTypeTransaction {
				err = g.commander.SaveMeta(ctx, params, op.TargetType, big.NewInt(op.TargetTx), md)
			} else {
				err = g.commander.SaveMeta(ctx, params, ledger.MetaTargetTypeAccount, op.TargetAcc, md)
			}
		case OpDeleteMeta:
			if op.TargetType == ledger.MetaTargetTypeTransaction {
				err = g.commander.DeleteMetadata(ctx, params, op.TargetType, big.NewInt(op.TargetTx), op.Key)
			} else {
				err = g.commander.DeleteMetadata(ctx, params, ledger.MetaTargetTypeAccount, op.TargetAcc, op.Key)
			}
		}
		returned = true
		resp.Answered = true
		resp.OK = err == nil
		if err != nil {
			resp.ErrClass, resp.ErrText = classify(err), err.Error()
		}
		resp.Tx = copyTx(tx)
	}()
}

// ---------------------------------------------------------------------------
// the scheduler

func contains(xs []int, x int) bool {
	for _, v := range xs {
		if v == x {
			return true
		}
	}
	return false
}

// Run executes one plan and returns its history. It must be called from a
// goroutine that is not already inside a synctest bubble.
func Run(t *testing.T, plan *Plan) (res *Result) {
	install()
	res = &Result{Plan: plan, Responses: make([]*Response, len(plan.Ops)), SpawnStep: make([]int, len(plan.Ops)), SpawnGen: make([]int, len(plan.Ops)), RevertTargets: map[int]int64{}}
	for i := range res.SpawnStep {
		res.SpawnStep[i], res.SpawnGen[i] = -1, -1
	}
	defer func() {
		if p := recover(); p != nil {
			msg := fmt.Sprint(p)
			if strings.Contains(msg, "deadlock: main bubble goroutine has exited") {
				if res.LeakedWorkers > 0 || res.Closes > 0 || res.CancelledWaits > 0 {
					// expected: see LeakedWorkers; after a graceful Close a request that still reaches the
					// batcher blocks for ever in Runner.Next (nobody reads newJobsAvailable any more) -- the
					// process exits in real life, here the goroutine is left behind
					return
				}
				res.HarnessErr = "goroutines left blocked at the end of the case: " + msg
				return
			}
			panic(p)
		}
	}()
	synctest.Test(t, func(*testing.T) { runInBubble(plan, res) })
	return res
}

func runInBubble(plan *Plan, res *Result) {
	s := &Sim{plan: plan, res: res}
	s.store = newModelStore(s)
	res.Store = s.store
	t0 := time.Now()
	if err := s.newGeneration(); err != nil {
		res.HarnessErr = err.Error()
		return
	}
	maxSteps := plan.MaxSteps
	if maxSteps <= 0 {
		maxSteps = 600
	}
	next := 0
	restarted := map[int]bool{}
	closeUsed := map[int]bool{}
	closeDyn := map[int]bool{}
	handoffs := 0
	grace := map[int]int{}
	holdLeft := make([]int, len(plan.Hold))
	for i, h := range plan.Hold {
		holdLeft[i] = h[2]
	}
	answered := func(i int) bool {
		r := res.Responses[i]
		if r == nil {
			return false
		}
		for _, g := range s.gens {
			if g.id == res.SpawnGen[i] {
				for _, c := range g.clients {
					if c.id == i && c.done {
						return true
					}
				}
			}
		}
		return false
	}
	for {
		synctest.Wait()
		if plan.TickClock {
			// everything else is blocked: the bubble's clock jumps
			time.Sleep(time.Millisecond)
			synctest.Wait()
		}
		// a dead batch runner is a dead process
		s.mu.Lock()
		runnerDead := s.cur.runnerDead && !s.cur.dead
		s.mu.Unlock()
		crashNow := contains(plan.CrashAt, s.step)
		if runnerDead && !crashNow && grace[s.cur.id] < plan.DeathGrace {
			// the runner has panicked, the process is going down: goroutines that are already
			// past (or exactly at the end of) their wait for persistence may still make progress
			s.mu.Lock()
			var late []*gate
			for _, p := range s.parked {
				if p.ci.gen != s.cur || p.ci.id < 0 {
					continue
				}
				switch p.point {
				case "exec.wait", "run.wait":
					if p.cond != nil && p.cond() {
						late = append(late, p)
					}
				case "run.persisted", "monitor.publish":
					late = append(late, p)
				}
			}
			s.mu.Unlock()
			if len(late) > 0 {
				sort.Slice(late, func(i, j int) bool { return late[i].seq < late[j].seq })
				c := 0
				if s.step < len(plan.Choices) {
					c = plan.Choices[s.step]
				}
				g := late[c%len(late)]
				s.mu.Lock()
				rest := s.parked[:0:0]
				for _, p := range s.parked {
					if p != g {
						rest = append(rest, p)
					}
				}
				s.parked = rest
				s.event(g.ci.gen.id, g.ci.id, "gate", g.point+" (after runner death)")
				grace[s.cur.id]++
				s.step++
				s.mu.Unlock()
				g.ch <- gateResult{}
				continue
			}
		}
		if (contains(plan.CloseAt, s.step) || closeDyn[s.step]) && !closeUsed[s.step] && !s.cur.closing && !runnerDead && !crashNow {
			closeUsed[s.step] = true
			// graceful shutdown: Close() is called while requests are in flight; they keep running (the
			// server drains them) but no new request is accepted by this process
			g := s.cur
			s.mu.Lock()
			g.closing = true
			g.closed = make(chan struct{})
			res.Closes++
			s.event(g.id, -1, "close", "")
			s.mu.Unlock()
			go func() {
				defer close(g.closed)
				g.commander.Close()
			}()
			synctest.Wait()
		}
		if runnerDead || crashNow {
			g := s.cur
			s.mu.Lock()
			if runnerDead {
				s.event(g.id, -1, "runner-died", fmt.Sprint(g.runnerErr))
			} else {
				s.event(g.id, -1, "crash", "")
			}
			res.CrashSteps = append(res.CrashSteps, s.step)
			s.mu.Unlock()
			if msg := s.kill(g); msg != "" {
				res.HarnessErr = msg
				return
			}
			if err := s.newGeneration(); err != nil {
				res.HarnessErr = err.Error()
				return
			}
			synctest.Wait()
		}
		for _, c := range plan.CancelAt {
			if c[1] == s.step && c[0] < len(plan.Ops) {
				for _, g := range s.gens {
					for _, cl := range g.clients {
						if cl.id == c[0] && !cl.done {
							s.mu.Lock()
							s.event(g.id, cl.id, "cancel", "")
							s.mu.Unlock()
							cl.cancel()
						}
					}
				}
				synctest.Wait()
			}
		}
		s.mu.Lock()
		var enabled []*gate
		for _, p := range s.parked {
			if p.await != nil {
				select {
				case <-p.await:
				default:
					continue
				}
			}
			if p.cond != nil && !p.cond() {
				continue
			}
			enabled = append(enabled, p)
		}
		s.mu.Unlock()
		sort.Slice(enabled, func(i, j int) bool {
			if enabled[i].ci.id != enabled[j].ci.id {
				return enabled[i].ci.id < enabled[j].ci.id
			}
			return enabled[i].seq < enabled[j].seq
		})
		canSpawn := false
		if next < len(plan.Ops) {
			canSpawn = true
			b := plan.Ops[next].Barrier
			if b > next {
				b = next
			}
			for i := 0; i < b; i++ {
				if res.Responses[i] != nil && !answered(i) {
					canSpawn = false
					break
				}
			}
		}
		if s.cur.closing {
			canSpawn = false // a process that is shutting down accepts no new request
		}
		if plan.SlowStore && len(enabled) > 0 {
			// a slow store: while anything else can move, a batch insert completes only at the steps whose
			// choice value is one of the three highest (so persistence lags behind the requests by many steps)
			raw := 0
			if s.step < len(plan.Choices) {
				raw = plan.Choices[s.step]
			}
			if raw < 9 {
				var others []*gate
				for _, g := range enabled {
					if !strings.HasPrefix(g.point, "store.InsertLogs") {
						others = append(others, g)
					}
				}
				if len(others) > 0 || canSpawn {
					enabled = others
				}
			}
		}
		if len(plan.Hold) > 0 && len(enabled) > 0 {
			// a slow request: while it is held, everything else moves first
			var others []*gate
			var heldNow []int
			for _, g := range enabled {
				held := false
				for hi, h := range plan.Hold {
					if g.ci.id == h[0] && g.ci.id >= 0 && g.ci.passed >= h[1] && holdLeft[hi] > 0 {
						held = true
						heldNow = append(heldNow, hi)
					}
				}
				if !held {
					others = append(others, g)
				}
			}
			if len(heldNow) > 0 && (len(others) > 0 || canSpawn) {
				enabled = others
				for _, hi := range heldNow {
					holdLeft[hi]--
				}
				res.Holds++
			}
		}
		if s.cur.closing && len(enabled) == 0 {
			// everything that could finish has finished: the process exits; what is left blocked is lost
			g := s.cur
			hung := false
			select {
			case <-g.closed:
			default:
				// Close() waits for requests that will never finish (their batch was dropped by the
				// shutdown): the operator's patience ends and the process is killed
				hung = true
			}
			s.mu.Lock()
			if hung {
				s.event(g.id, -1, "close-hung", "")
			}
			s.event(g.id, -1, "exit", "")
			res.CrashSteps = append(res.CrashSteps, s.step)
			s.mu.Unlock()
			if msg := s.kill(g); msg != "" {
				res.HarnessErr = msg
				return
			}
			if err := s.newGeneration(); err != nil {
				res.HarnessErr = err.Error()
				return
			}
			continue
		}
		n := len(enabled)
		if canSpawn {
			n++
		}
		if n == 0 {
			if next < len(plan.Ops) {
				// the barrier can never open: earlier requests are stuck for good
				s.spawnBlocked(next, res)
			}
			break
		}
		if s.step >= maxSteps {
			res.BudgetHit = true
			break
		}
		c := 0
		if s.step < len(plan.Choices) {
			c = plan.Choices[s.step]
			if c < 0 {
				c = -c
			}
		}
		c %= n
		if c == len(enabled) {
			if contains(plan.RestartBefore, next) && !restarted[next] {
				restarted[next] = true
				g := s.cur
				s.mu.Lock()
				s.event(g.id, -1, "restart", "")
				res.CrashSteps = append(res.CrashSteps, s.step)
				s.mu.Unlock()
				if msg := s.kill(g); msg != "" {
					res.HarnessErr = msg
					return
				}
				if err := s.newGeneration(); err != nil {
					res.HarnessErr = err.Error()
					return
				}
				continue
			}
			s.spawn(next)
			next++
		} else {
			g := enabled[c]
			s.mu.Lock()
			rest := s.parked[:0:0]
			for _, p := range s.parked {
				if p != g {
					rest = append(rest, p)
				}
			}
			s.parked = rest
			s.event(g.ci.gen.id, g.ci.id, "gate", g.point)
			r := gateResult{}
			if strings.HasPrefix(g.point, "store.InsertLogs") {
				if contains(plan.FaultAt, s.inserts) {
					r.fault = true
					res.Faults++
					s.event(g.ci.gen.id, -1, "fault", "")
				}
				s.inserts++
			} else if strings.HasPrefix(g.point, "store.") && !strings.HasSuffix(g.point, ".answer") {
				if contains(plan.ReadFaultAt, s.reads) {
					r.fault = true
				}
				for _, rf := range plan.ReadFaultOf {
					if g.ci.id >= 0 && rf[0] == g.ci.id && rf[1] == g.ci.reads {
						r.fault = true
					}
				}
				if r.fault {
					res.ReadFaults++
					s.event(g.ci.gen.id, g.ci.id, "read-fault", g.point)
				}
				s.reads++
				g.ci.reads++
			}
			if g.point == "append.handedoff" {
				handoffs++
				for _, ch := range plan.CloseAfterHandoff {
					if ch[0] == handoffs {
						closeDyn[s.step+1+ch[1]] = true
					}
				}
				if contains(plan.CancelAtHandoff, handoffs) && g.ci.id >= 0 && g.ci.cancel != nil {
					s.event(g.ci.gen.id, g.ci.id, "cancel", g.point)
					res.Cancels++
					g.ci.cancel()
				}
			}
			if g.ci.id >= 0 {
				for _, ca := range plan.CancelAfter {
					if ca[0] == g.ci.id && ca[1] == g.ci.passed && g.ci.cancel != nil {
						s.event(g.ci.gen.id, g.ci.id, "cancel", g.point)
						res.Cancels++
						g.ci.cancel()
					}
				}
				g.ci.passed++
			}
			s.mu.Unlock()
			g.ch <- r
		}
		s.mu.Lock()
		s.step++
		s.mu.Unlock()
	}
	res.Steps = s.step
	res.Generations = len(s.gens)
	// which requests of the live generation are still waiting?
	for i := range plan.Ops {
		if res.Responses[i] != nil && !answered(i) && res.SpawnGen[i] == s.cur.id {
			res.Stuck = append(res.Stuck, i)
		}
	}
	if msg := s.kill(s.cur); msg != "" && res.HarnessErr == "" {
		res.HarnessErr = msg
	}
	res.ClockMoved = !time.Now().Equal(t0)
}

func (s *Sim) spawnBlocked(next int, res *Result) {}

// RenderResult gives a compact JSON-able view for samples and replays.
func RenderResult(r *Result) map[string]any {
	logs := []any{}
	for _, e := range r.Store.Entries {
		b, _ := json.Marshal(e.Log)
		logs = append(logs, map[string]any{"batch": e.Batch, "gen": e.Gen, "step": e.Step, "log": json.RawMessage(b)})
	}
	return map[string]any{
		"plan":      r.Plan,
		"responses": r.Responses,
		"persisted": logs,
		"steps":     r.Steps,
		"crashes":   r.CrashSteps,
		"events":    renderEvents(r.Events),
	}
}

func renderEvents(ev []Event) []string {
	out := make([]string, 0, len(ev))
	for _, e := range ev {
		out = append(out, fmt.Sprintf("%d g%d c%d %s %s", e.Step, e.Gen, e.Client, e.Kind, e.Point))
	}
	return out
}
