package enginesim

import (
	"fmt"
	"math/big"
	"strings"

	ledger "github.com/formancehq/ledger/internal"
	"pgregory.net/rapid"
)

// GenConfig selects which regions of the history space a property explores.
type GenConfig struct {
	Accounts        []string // non-world accounts
	Assets          []string
	MaxRounds       int
	MaxPerRound     int
	Kinds           []OpKind // kinds allowed after the prefix
	RefPool         []string // "" = no reference
	IKPool          []string // "" = no key
	DryRunPct       int
	Crashes         int  // max crash points
	Faults          int  // max store faults
	ReadFaults      int  // max failing store reads (issued by requests)
	Closes          int  // max graceful shutdowns (Commander.Close with requests in flight, then a restart)
	UniqueIKPct     int  // percentage of requests carrying an idempotency key of their own (never used before)
	RevertByRef     bool // reverts may designate their target by the reference it was created under
	SharedNamePct   int  // percentage of rounds in which one text is the idempotency key of a write sent twice and the reference of a request that comes and goes meanwhile
	WideBurstPct    int  // percentage of rounds that are 3-5 creates from @world with nothing in common (no account lock, no reference): several entries queue up behind the one being persisted
	RefBurstPct     int  // percentage of rounds that are a burst of creates from @world with no account lock in common (sharing one reference when there is a reference pool)
	Cancels         int
	HandoffCancels  int // max callers that go away at the very moment their entry is handed to the batcher
	Holds           int // max slow requests (held back for a stretch while everything else moves)
	VarSourcesPct   int // percentage of rounds made of 3-5 creates that all use the one script whose two sources and destination are variables (one cached program, many bindings, @world among them; some sequential, some racing)
	LongPrefixPct   int // percentage of histories whose funding prefix ends with one transaction of 13-24 postings (which reverts then aim at)
	TickingClockPct int // percentage of histories in which the clock advances by a millisecond at every scheduler step (otherwise it stands still)
	SmallBatches    bool
	ExplicitTime    bool
	FailingPct      int // share of creates that are meant to fail (compile error, ...)
	MetaNaming      bool
	Choices         int
	Sequential      bool // one op per round
	SameIKIdentical bool // ops sharing an idempotency key are byte-identical requests
	MetaFirstPct    int  // share of histories that start with metadata writes only (no transaction yet)
}

func DefaultConfig() GenConfig {
	return GenConfig{
		Accounts:    []string{"a", "b", "c", "d"},
		Assets:      []string{"USD", "EUR/2"},
		MaxRounds:   3,
		MaxPerRound: 3,
		Kinds:       []OpKind{OpCreate, OpCreate, OpCreate, OpRevert, OpSaveMeta, OpDeleteMeta},
		RefPool:     []string{"", "", "", "r1", "r2"},
		IKPool:      []string{"", "", "", "", "k1", "k2"},
		MetaNaming:  true,
		Choices:     160,
	}
}

func sendScript(amount, asset, src, dst string) string {
	return fmt.Sprintf("send [%s %s] (\n  source = %s\n  destination = %s\n)\n", asset, amount, src, dst)
}

// genCreate draws one script-mode or posting-mode create.
func genCreate(t *rapid.T, cfg *GenConfig, op *Op) {
	acc := func(label string) string { return rapid.SampledFrom(cfg.Accounts).Draw(t, label) }
	asset := rapid.SampledFrom(cfg.Assets).Draw(t, "asset")
	amt := rapid.SampledFrom([]int{0, 1, 30, 50, 60, 80, 100, 150}).Draw(t, "amount")
	amount := fmt.Sprint(amt)
	src := acc("src")
	dst := acc("dst")
	if rapid.IntRange(0, 9).Draw(t, "toWorld") == 0 {
		dst = "world"
	}
	op.Grants = map[string]string{}
	if cfg.FailingPct > 0 && rapid.IntRange(0, 99).Draw(t, "failing") < cfg.FailingPct {
		switch rapid.IntRange(0, 2).Draw(t, "failKind") {
		case 0:
			op.Script = "send [USD 10] (\n source = @world\n destination = \n)"
		case 1:
			op.Script = "vars {\n account $x\n}\n" + sendScript("10", "USD", "$x", "@"+dst)
			op.Vars = map[string]string{}
		default:
			op.Script = sendScript("10", "USD", "@world", "@"+dst) + "set_tx_meta(\"tag\", \"clash\")\n"
		}
		return
	}
	mode := rapid.SampledFrom([]string{"literal", "literal", "variable", "meta", "overdraft", "unbounded", "ordered", "multi", "postings", "balance", "balance-noted", "balance-noted", "fromworld", "sendall", "sendall-variable", "twice-named", "twice-named"}).Draw(t, "mode")
	if mode == "meta" && !cfg.MetaNaming {
		mode = "variable"
	}
	switch mode {
	case "literal":
		op.Script = sendScript(amount, asset, "@"+src, "@"+dst)
	case "variable":
		op.Script = "vars {\n  account $s\n}\n" + sendScript(amount, asset, "$s", "@"+dst)
		op.Vars = map[string]string{"s": src}
	case "meta":
		op.Script = "vars {\n  account $s = meta(@cfg, \"src\")\n}\n" + sendScript(amount, asset, "$s", "@"+dst)
	case "overdraft":
		k := rapid.SampledFrom([]int{10, 50}).Draw(t, "grant")
		op.Script = sendScript(amount, asset, fmt.Sprintf("@%s allowing overdraft up to [%s %d]", src, asset, k), "@"+dst)
		op.Grants[src+"/"+asset] = fmt.Sprint(k)
	case "unbounded":
		op.Script = sendScript(amount, asset, fmt.Sprintf("@%s allowing unbounded overdraft", src), "@"+dst)
		op.Grants[src+"/"+asset] = ""
	case "ordered":
		src2 := acc("src2")
		if src2 == src {
			op.Script = sendScript(amount, asset, "@"+src, "@"+dst)
		} else {
			op.Script = sendScript(amount, asset, "{\n    @"+src+"\n    @"+src2+"\n  }", "@"+dst)
		}
	case "multi":
		dst2 := acc("dst2")
		op.Script = sendScript(amount, asset, "@"+src, "@"+dst) + sendScript("10", asset, "@"+dst, "@"+dst2)
	case "postings":
		n := rapid.IntRange(1, 3).Draw(t, "nPostings")
		if rapid.IntRange(0, 3).Draw(t, "longPostings") == 0 {
			// a long list (order matters to everything that replays or inverts it): a fan-out from world, or a
			// chain world -> x1 -> x2 -> ... in which every hop spends what the previous one delivered
			n = 0
			m := rapid.IntRange(9, 24).Draw(t, "nLong")
			chain := rapid.Bool().Draw(t, "chain")
			prev := "world"
			for i := 0; i < m; i++ {
				d := cfg.Accounts[i%len(cfg.Accounts)]
				if chain {
					op.Postings = append(op.Postings, ledger.Posting{Source: prev, Destination: d, Asset: asset, Amount: big.NewInt(10)})
					prev = d
				} else {
					op.Postings = append(op.Postings, ledger.Posting{Source: "world", Destination: d, Asset: asset, Amount: big.NewInt(int64(1 + i))})
				}
			}
		}
		for i := 0; i < n; i++ {
			s, d := acc("psrc"), acc("pdst")
			if i == 0 {
				s = src
			}
			op.Postings = append(op.Postings, ledger.Posting{Source: s, Destination: d, Asset: asset, Amount: big.NewInt(int64(rapid.SampledFrom([]int{0, 10, 40, 80}).Draw(t, "pamt")))})
		}
	case "twice-named":
		// the source account is named a second time, earlier and in another role: through a variable that
		// is a destination or the target of a metadata write (one account, two designations)
		switch rapid.IntRange(0, 2).Draw(t, "twiceShape") {
		case 0:
			op.Script = "vars {\n  account $x\n}\n" + sendScript("0", asset, "@world", "$x") + sendScript(amount, asset, "@"+src, "@"+dst)
		case 1:
			op.Script = "vars {\n  account $x\n}\n" + sendScript(amount, asset, "@"+src, "@"+dst) + fmt.Sprintf("set_account_meta($x, \"seen\", \"%s\")\n", op.Tag)
		default:
			op.Script = "vars {\n  account $x\n  account $s\n}\n" + sendScript("0", asset, "@world", "$x") + sendScript(amount, asset, "$s", "@"+dst)
			op.Vars = map[string]string{"s": src}
		}
		if op.Vars == nil {
			op.Vars = map[string]string{}
		}
		op.Vars["x"] = src
	case "sendall":
		op.Script = fmt.Sprintf("send [%s *] (\n  source = @%s\n  destination = @%s\n)\n", asset, src, dst)
	case "sendall-variable":
		op.Script = fmt.Sprintf("vars {\n  account $s\n}\nsend [%s *] (\n  source = $s\n  destination = @%s\n)\n", asset, dst)
		op.Vars = map[string]string{"s": src}
	case "balance":
		op.Script = fmt.Sprintf("vars {\n  monetary $m = balance(@%s, %s)\n}\nsend $m (\n  source = @%s\n  destination = @%s\n)\n", src, asset, src, dst)
	case "balance-noted":
		// the balance of the paying account is looked up and written down, the amount sent is stated separately
		op.Script = fmt.Sprintf("vars {\n  monetary $m = balance(@%s, %s)\n}\n", src, asset) + sendScript(amount, asset, "@"+src, "@"+dst) + "set_tx_meta(\"balance_before\", $m)\n"
	case "fromworld":
		op.Script = sendScript(amount, asset, "@world", "@"+dst)
	}
	if rapid.IntRange(0, 5).Draw(t, "accmeta") == 0 && op.Script != "" {
		op.Script += fmt.Sprintf("set_account_meta(@%s, \"seen\", \"%s\")\n", dst, op.Tag)
	}
	if rapid.IntRange(0, 5).Draw(t, "txmeta") == 0 && op.Script != "" {
		op.Script += "set_tx_meta(\"note\", \"n-" + op.Tag + "\")\n"
	}
}

// GenPlan draws a whole history: a sequential funding prefix, then rounds of
// concurrent requests, with scheduling choices, crash points and faults.
func GenPlan(t *rapid.T, cfg GenConfig) *Plan {
	p := &Plan{}
	add := func(op Op) *Op {
		op.Tag = fmt.Sprintf("op%d", len(p.Ops))
		p.Ops = append(p.Ops, op)
		return &p.Ops[len(p.Ops)-1]
	}
	// some histories begin with metadata writes only: a log without any transaction
	if cfg.MetaFirstPct > 0 && rapid.IntRange(0, 99).Draw(t, "metaFirst") < cfg.MetaFirstPct {
		for i, n := 0, rapid.IntRange(1, 3).Draw(t, "nMetaFirst"); i < n; i++ {
			o := add(Op{Kind: OpSaveMeta, TargetType: ledger.MetaTargetTypeAccount, TargetAcc: rapid.SampledFrom(cfg.Accounts).Draw(t, "mfAcc")})
			o.Barrier = len(p.Ops) - 1
			o.Meta = map[string]string{"tag": o.Tag, "k1": "first"}
			if rapid.Bool().Draw(t, "mfDelete") {
				d := add(Op{Kind: OpDeleteMeta, TargetType: ledger.MetaTargetTypeAccount, TargetAcc: o.TargetAcc, Key: "k1"})
				d.Barrier = len(p.Ops) - 1
			}
		}
	}
	// prefix: fund two or three accounts, point the metadata lookup at one of them
	nFund := rapid.IntRange(2, 3).Draw(t, "nFund")
	for i := 0; i < nFund; i++ {
		acc := cfg.Accounts[i%len(cfg.Accounts)]
		amt := rapid.SampledFrom([]int{50, 100}).Draw(t, "fund")
		o := add(Op{Kind: OpCreate})
		o.Barrier = len(p.Ops) - 1
		o.Script = sendScript(fmt.Sprint(amt), cfg.Assets[0], "@world", "@"+acc)
		if i == 0 && len(cfg.Assets) > 1 {
			o.Script += sendScript(fmt.Sprint(amt), cfg.Assets[1], "@world", "@"+acc)
		}
	}
	longTx := -1
	if cfg.LongPrefixPct > 0 && rapid.IntRange(0, 99).Draw(t, "longPrefix") < cfg.LongPrefixPct {
		// one more transaction in the prefix, with many postings: a chain in which every hop spends what the
		// previous one delivered, or a fan-out (its order matters to whatever replays or inverts it)
		o := add(Op{Kind: OpCreate})
		o.Barrier = len(p.Ops) - 1
		o.Grants = map[string]string{}
		m := rapid.IntRange(13, 24).Draw(t, "nLongPrefix")
		chain := rapid.Bool().Draw(t, "longPrefixChain")
		leaky := rapid.Bool().Draw(t, "longPrefixLeaky")
		prev := "world"
		for i := 0; i < m; i++ {
			d := cfg.Accounts[i%len(cfg.Accounts)]
			if chain {
				// (leaky: every hop passes on a little less than it received, so each account keeps something)
				amt := int64(10)
				if leaky {
					amt = int64(40 - i)
				}
				o.Postings = append(o.Postings, ledger.Posting{Source: prev, Destination: d, Asset: cfg.Assets[0], Amount: big.NewInt(amt)})
				prev = d
			} else {
				o.Postings = append(o.Postings, ledger.Posting{Source: "world", Destination: d, Asset: cfg.Assets[0], Amount: big.NewInt(int64(1 + i))})
			}
		}
		longTx = nFund
	}
	if rapid.IntRange(0, 3).Draw(t, "overdrawnPrefix") == 0 {
		// one account starts the history in the red (it was allowed to): whatever reads its balance meets a negative number
		o := add(Op{Kind: OpCreate})
		o.Barrier = len(p.Ops) - 1
		acc := cfg.Accounts[len(cfg.Accounts)-1]
		o.Script = sendScript("30", cfg.Assets[0], fmt.Sprintf("@%s allowing unbounded overdraft", acc), "@world")
		o.Grants = map[string]string{acc + "/" + cfg.Assets[0]: ""}
	}
	if cfg.MetaNaming {
		o := add(Op{Kind: OpSaveMeta, TargetType: ledger.MetaTargetTypeAccount, TargetAcc: "cfg"})
		o.Barrier = len(p.Ops) - 1
		o.Meta = map[string]string{"src": rapid.SampledFrom(cfg.Accounts[:2]).Draw(t, "cfgSrc")}
	}
	previewInBurst := false
	rounds := rapid.IntRange(1, cfg.MaxRounds).Draw(t, "rounds")
	for r := 0; r < rounds; r++ {
		start := len(p.Ops)
		n := 1
		if !cfg.Sequential {
			n = rapid.IntRange(1, cfg.MaxPerRound).Draw(t, "perRound")
		}
		var template *Op
		if cfg.VarSourcesPct > 0 && rapid.IntRange(0, 99).Draw(t, "varSources") < cfg.VarSourcesPct {
			// one script text for every request of the round (so one compiled program serves them all): who pays
			// first, who pays the rest and who receives are bindings -- @world among the first payers now and then.
			// Some of the requests run one after the other, the rest race
			payer := rapid.SampledFrom(cfg.Accounts[:2]).Draw(t, "vsPayer")
			k := rapid.IntRange(3, 5).Draw(t, "vsN")
			for i := 0; i < k; i++ {
				o := add(Op{Kind: OpCreate, Barrier: start})
				if rapid.Bool().Draw(t, "vsAlone") {
					o.Barrier = len(p.Ops) - 1
					start = len(p.Ops) // those that follow wait for it
				}
				o.Grants = map[string]string{}
				o.Script = fmt.Sprintf("vars {\n  account $p\n  account $q\n  account $d\n}\nsend [%s 40] (\n  source = {\n    $p\n    $q\n  }\n  destination = $d\n)\n", cfg.Assets[0])
				first := payer
				if rapid.IntRange(0, 3).Draw(t, "vsWorld") == 0 {
					first = "world"
				}
				o.Vars = map[string]string{"p": first, "q": rapid.SampledFrom(cfg.Accounts).Draw(t, "vsQ"), "d": rapid.SampledFrom(cfg.Accounts).Draw(t, "vsD")}
			}
			continue
		}
		if cfg.SharedNamePct > 0 && rapid.IntRange(0, 99).Draw(t, "sharedName") < cfg.SharedNamePct {
			// one text in two roles at the same time: the idempotency key of a write sent twice, and the reference
			// of another request that comes and goes meanwhile (a preview, or a request the machine refuses)
			name := rapid.SampledFrom([]string{"k1", "k2", "shared"}).Draw(t, "sharedNameText")
			w := Op{Kind: OpSaveMeta, Barrier: start, IK: name, TargetType: ledger.MetaTargetTypeAccount, TargetAcc: "cfg2"}
			if rapid.Bool().Draw(t, "sharedNameCreate") {
				w = Op{Kind: OpCreate, Barrier: start, IK: name, Grants: map[string]string{}, Script: sendScript("1", cfg.Assets[0], "@world", "@"+cfg.Accounts[0])}
			}
			first := add(w)
			firstTag := first.Tag
			if first.Kind == OpSaveMeta {
				first.Meta = map[string]string{"tag": firstTag}
			}
			w = *first
			passer := Op{Kind: OpCreate, Barrier: start, Reference: name, Grants: map[string]string{}}
			if rapid.Bool().Draw(t, "sharedNamePreview") {
				passer.DryRun = true
				passer.Script = sendScript("1", cfg.Assets[0], "@world", "@"+cfg.Accounts[1])
			} else {
				passer.Script = sendScript("1000000", cfg.Assets[0], "@nobody", "@"+cfg.Accounts[1]) // refused: no funds
			}
			add(passer)
			again := add(w) // the same request once more
			if cfg.SameIKIdentical {
				again.Tag = firstTag
			} else if again.Kind == OpSaveMeta {
				again.Meta = map[string]string{"tag": again.Tag}
			}
			continue
		}
		wide := cfg.WideBurstPct > 0 && rapid.IntRange(0, 99).Draw(t, "wideBurst") < cfg.WideBurstPct
		if wide || (cfg.RefBurstPct > 0 && rapid.IntRange(0, 99).Draw(t, "refBurst") < cfg.RefBurstPct) {
			// a pure race on one reference: the requests have no account lock in common, so only the
			// reference reservation and the store lookup order them; some of them are previews
			ref := ""
			for _, x := range cfg.RefPool {
				if !wide && x != "" && (ref == "" || rapid.Bool().Draw(t, "burstRef")) {
					ref = x
				}
			}
			k := rapid.IntRange(2, 4).Draw(t, "burstN")
			// with previews enabled, one drawn position of the burst is a preview and the others mostly real
			previewAt := -1
			if cfg.DryRunPct > 0 {
				previewAt = rapid.IntRange(0, k).Draw(t, "burstPreviewAt") // k = none
			}
			if ref == "" {
				// no reference pool: the burst is just several writes with no lock in common, in flight together
				k = rapid.IntRange(3, 5).Draw(t, "burstWide")
			}
			for i := 0; i < k; i++ {
				o := add(Op{Kind: OpCreate, Barrier: start, Reference: ref})
				o.Grants = map[string]string{}
				o.Script = sendScript(fmt.Sprint(1+i), cfg.Assets[0], "@world", "@"+cfg.Accounts[i%len(cfg.Accounts)])
				o.DryRun = i == previewAt || (cfg.DryRunPct > 0 && rapid.IntRange(0, 5).Draw(t, "burstPreview") == 0)
				if o.DryRun && ref != "" {
					previewInBurst = true
				}
			}
			continue
		}
		for i := 0; i < n; i++ {
			kind := rapid.SampledFrom(cfg.Kinds).Draw(t, "kind")
			o := add(Op{Kind: kind, Barrier: start})
			if len(cfg.IKPool) > 0 {
				o.IK = rapid.SampledFrom(cfg.IKPool).Draw(t, "ik")
			}
			if cfg.UniqueIKPct > 0 && rapid.IntRange(0, 99).Draw(t, "uniqueIK") < cfg.UniqueIKPct {
				o.IK = "only-" + o.Tag // a key no other request of the history carries
			}
			if cfg.DryRunPct > 0 && rapid.IntRange(0, 99).Draw(t, "dry") < cfg.DryRunPct {
				o.DryRun = true
			}
			// racing duplicates: with some probability repeat the previous op of the round
			if template != nil && rapid.IntRange(0, 3).Draw(t, "dup") == 0 {
				tag := o.Tag
				*o = *template
				o.Tag = tag
				if cfg.DryRunPct > 0 && rapid.IntRange(0, 2).Draw(t, "dupFlipPreview") == 0 {
					// the same request once as a preview and once for real, racing each other
					o.DryRun = !template.DryRun
				}
				if cfg.SameIKIdentical && o.IK != "" {
					o.Tag = template.Tag
				}
				continue
			}
			switch kind {
			case OpCreate:
				genCreate(t, &cfg, o)
				if len(cfg.RefPool) > 0 {
					o.Reference = rapid.SampledFrom(cfg.RefPool).Draw(t, "ref")
				}
				if cfg.ExplicitTime && rapid.Bool().Draw(t, "explicitTime") {
					o.Timestamp = rapid.SampledFrom([]string{"2023-05-01T10:00:00Z", "1999-12-31T23:59:59.123456Z", "2030-01-01T00:00:00+02:00"}).Draw(t, "ts")
				}
			case OpRevert:
				o.TargetTx = int64(rapid.IntRange(0, 6).Draw(t, "target"))
				if longTx >= 0 && rapid.IntRange(0, 2).Draw(t, "targetLong") == 0 {
					o.TargetTx = int64(longTx)
				}
				o.Force = rapid.IntRange(0, 3).Draw(t, "force") == 0
				if cfg.RevertByRef && rapid.Bool().Draw(t, "revertByRef") {
					for _, r := range cfg.RefPool {
						if r != "" && (o.TargetRef == "" || rapid.Bool().Draw(t, "otherRef")) {
							o.TargetRef = r
						}
					}
				}
			case OpSaveMeta, OpDeleteMeta:
				if rapid.Bool().Draw(t, "onTx") {
					o.TargetType = ledger.MetaTargetTypeTransaction
					o.TargetTx = int64(rapid.IntRange(0, 6).Draw(t, "target"))
				} else {
					o.TargetType = ledger.MetaTargetTypeAccount
					o.TargetAcc = rapid.SampledFrom(append([]string{"cfg"}, cfg.Accounts...)).Draw(t, "acc")
				}
				if kind == OpSaveMeta && rapid.IntRange(0, 7).Draw(t, "emptyMeta") == 0 {
					// a write that sets nothing is still a write: it gets an entry and an event
					o.Meta = map[string]string{}
				} else if kind == OpSaveMeta {
					o.Meta = map[string]string{"tag": o.Tag}
					if o.TargetAcc == "cfg" {
						o.Meta["src"] = rapid.SampledFrom(cfg.Accounts[:2]).Draw(t, "cfgSrc")
					} else {
						o.Meta[rapid.SampledFrom([]string{"k1", "k2"}).Draw(t, "mk")] = "v-" + o.Tag
					}
				} else {
					o.Key = rapid.SampledFrom([]string{"k1", "k2", "note", "tag"}).Draw(t, "key")
				}
			}
			template = o
		}
	}
	if cfg.RevertByRef && rapid.IntRange(0, 2).Draw(t, "reuseAfterRevert") == 0 {
		// a later attempt on a reference whose holder has been reverted meanwhile (it still holds the reference)
		var refs []string
		for _, r := range cfg.RefPool {
			if r != "" {
				refs = append(refs, r)
			}
		}
		if len(refs) > 0 {
			ref := rapid.SampledFrom(refs).Draw(t, "reuseRef")
			rv := add(Op{Kind: OpRevert, TargetRef: ref, TargetTx: 99, Force: rapid.IntRange(0, 3).Draw(t, "reuseForce") > 0})
			rv.Barrier = len(p.Ops) - 1
			cr := add(Op{Kind: OpCreate})
			cr.Barrier = len(p.Ops) - 1
			genCreate(t, &cfg, cr)
			cr.Reference = ref
		}
	}
	nc := cfg.Choices
	if nc <= 0 {
		nc = 160
	}
	p.Choices = rapid.SliceOfN(rapid.IntRange(0, 11), nc, nc).Draw(t, "choices")
	for i := 0; i < cfg.Crashes; i++ {
		if rapid.Bool().Draw(t, "crash") {
			p.CrashAt = append(p.CrashAt, rapid.IntRange(0, 120).Draw(t, "crashAt"))
		}
	}
	if cfg.Faults > 0 {
		p.DeathGrace = rapid.SampledFrom([]int{0, 0, 2, 6}).Draw(t, "deathGrace")
	}
	for i := 0; i < cfg.Faults; i++ {
		if rapid.IntRange(0, 2).Draw(t, "fault") == 0 {
			p.FaultAt = append(p.FaultAt, rapid.IntRange(0, 8).Draw(t, "faultAt"))
		}
	}
	if len(p.FaultAt) > 0 {
		p.FaultKind = rapid.SampledFrom([]int{0, 0, 1, 1, 2, 3, 4}).Draw(t, "faultKind")
	}
	for i := 0; i < cfg.Closes; i++ {
		switch rapid.IntRange(0, 5).Draw(t, "close") {
		case 0:
			p.CloseAt = append(p.CloseAt, rapid.IntRange(0, 120).Draw(t, "closeAt"))
		case 1, 2:
			// shortly after some log was handed to the batcher: the moment a shutdown meets work in flight
			p.CloseAfterHandoff = append(p.CloseAfterHandoff, [2]int{rapid.IntRange(1, 10).Draw(t, "closeAfterHandoff"), rapid.IntRange(0, 8).Draw(t, "closeDelay")})
		}
	}
	for i := 0; i < cfg.ReadFaults; i++ {
		switch rapid.IntRange(0, 5).Draw(t, "readFault") {
		case 0, 1:
			p.ReadFaultAt = append(p.ReadFaultAt, rapid.IntRange(0, 30).Draw(t, "readFaultAt"))
		case 2:
			// the k-th read of one request: reaches the late reads of a request (after its write, say) however long the history
			p.ReadFaultOf = append(p.ReadFaultOf, [2]int{rapid.IntRange(0, len(p.Ops)-1).Draw(t, "readFaultOp"), rapid.IntRange(0, 3).Draw(t, "readFaultNth")})
		}
	}
	for i := 0; i < cfg.Cancels; i++ {
		if rapid.IntRange(0, 2).Draw(t, "cancel") == 0 {
			// the caller of one request goes away once the request has passed k of its own scheduling points
			p.CancelAfter = append(p.CancelAfter, [2]int{rapid.IntRange(0, len(p.Ops)-1).Draw(t, "cancelOp"), rapid.IntRange(0, 12).Draw(t, "cancelAfter")})
		}
	}
	for i := 0; i < cfg.HandoffCancels; i++ {
		if rapid.IntRange(0, 1).Draw(t, "handoffCancel") == 0 {
			p.CancelAtHandoff = append(p.CancelAtHandoff, rapid.IntRange(1, 10).Draw(t, "cancelAtHandoff"))
		}
	}
	for i := 0; i < cfg.Holds; i++ {
		if rapid.IntRange(0, 1).Draw(t, "hold") == 0 {
			p.Hold = append(p.Hold, [3]int{rapid.IntRange(0, len(p.Ops)-1).Draw(t, "holdOp"), rapid.IntRange(0, 10).Draw(t, "holdFrom"), rapid.IntRange(5, 60).Draw(t, "holdFor")})
		}
	}
	if cfg.SmallBatches && rapid.Bool().Draw(t, "smallBatch") {
		p.BatchSize = rapid.IntRange(1, 3).Draw(t, "batchSize")
	}
	if cfg.TickingClockPct > 0 && rapid.IntRange(0, 99).Draw(t, "tickingClock") < cfg.TickingClockPct {
		p.TickClock = true
	}
	p.SlowStore = rapid.IntRange(0, 2).Draw(t, "slowStore") == 0
	if previewInBurst && rapid.Bool().Draw(t, "slowStoreForBurst") {
		// a preview in a burst on one reference matters while the real writes of the burst are still unpersisted
		p.SlowStore = true
	}
	p.CacheSize = rapid.SampledFrom([]int{1, 2, 1024}).Draw(t, "cacheSize")
	return p
}

// PlanKey is a canonical text of the plan's operations (not of the schedule).
func PlanKey(p *Plan) string {
	var sb strings.Builder
	for _, o := range p.Ops {
		fmt.Fprintf(&sb, "%s|%v|%s|%d|%s|%v|%s|%s|%d|%v|%s|%s|%v|%s;", o.Kind, o.DryRun, o.IK, o.Barrier, o.Script, o.Vars, postingsKey(o.Postings), o.Reference+">"+o.TargetRef, o.TargetTx, o.Force, o.TargetType, o.TargetAcc, o.Meta, o.Key)
	}
	fmt.Fprintf(&sb, "c%v q%v%v f%v/%d r%v%v x%v%v%v h%v b%d s%v", p.CrashAt, p.CloseAt, p.CloseAfterHandoff, p.FaultAt, p.FaultKind, p.ReadFaultAt, p.ReadFaultOf, p.CancelAt, p.CancelAfter, p.CancelAtHandoff, p.Hold, p.BatchSize, p.SlowStore)
	return sb.String()
}

func postingsKey(ps []ledger.Posting) string {
	var sb strings.Builder
	for _, p := range ps {
		fmt.Fprintf(&sb, "%s>%s:%s%s,", p.Source, p.Destination, p.Asset, p.Amount)
	}
	return sb.String()
}
