// Package evid collects what a check actually explored and writes it as a
// shard file that the ./check driver merges into /verif/evidence/<id>.json.
//
// Nothing here influences the search: it only counts.
package evid

import (
	"encoding/json"
	"fmt"
	"hash/fnv"
	"os"
	"sort"
	"strconv"
	"strings"
	"sync"
)

const maxSamples = 8
const maxHashes = 4_000_000

// Collector accumulates counts for one property in one process.
type Collector struct {
	mu          sync.Mutex
	Property    string
	Rule        string
	Assumptions []string

	evaluations int
	nontrivial  int
	hashes      map[uint64]struct{}
	labels      map[string]int
	samples     []any
	sampleSeen  int
	knownMet    map[string]int
	knownWhat   map[string]string
	excluded    map[string]int
	discarded   map[string]int
	extra       map[string]any
	known       map[string]Finding
	frozen      bool
}

// Finding is one entry of /verif/known_findings.json.
type Finding struct {
	Property  string `json:"property"`
	Signature string `json:"signature"`
	Status    string `json:"status"` // "known" | "fixed"
	Commit    string `json:"commit,omitempty"`
	What      string `json:"what"`
}

// New makes a collector and loads the known-findings list named by
// $VERIF_KNOWN (default /verif/known_findings.json). The list is only read.
func New(property string) *Collector {
	c := &Collector{
		Property:  property,
		hashes:    map[uint64]struct{}{},
		labels:    map[string]int{},
		knownMet:  map[string]int{},
		knownWhat: map[string]string{},
		excluded:  map[string]int{},
		discarded: map[string]int{},
		extra:     map[string]any{},
		known:     map[string]Finding{},
	}
	path := os.Getenv("VERIF_KNOWN")
	if path == "" {
		path = "/verif/known_findings.json"
	}
	if b, err := os.ReadFile(path); err == nil {
		var f struct {
			Findings []Finding `json:"findings"`
		}
		if err := json.Unmarshal(b, &f); err == nil {
			for _, x := range f.Findings {
				if x.Property == property && x.Status == "known" {
					c.known[x.Signature] = x
				}
			}
		}
	}
	return c
}

// Freeze stops counting (used while rapid shrinks a failure so that the
// numbers describe the search, not the minimisation).
func (c *Collector) Freeze() { c.mu.Lock(); c.frozen = true; c.mu.Unlock() }

func hash64(s string) uint64 {
	h := fnv.New64a()
	h.Write([]byte(s))
	return h.Sum64()
}

// Case records one executed case. key is the canonical text of the case (used
// only to count distinct non-trivial cases); sample is rendered lazily.
func (c *Collector) Case(key string, nontrivial bool, labels []string, sample func() any) {
	c.mu.Lock()
	defer c.mu.Unlock()
	if c.frozen {
		return
	}
	c.evaluations++
	for _, l := range labels {
		c.labels[l]++
	}
	if !nontrivial {
		return
	}
	c.nontrivial++
	h := hash64(key)
	if _, ok := c.hashes[h]; ok {
		return
	}
	if len(c.hashes) < maxHashes {
		c.hashes[h] = struct{}{}
	}
	// deterministic reservoir: keep the cases whose hash is smallest
	if sample != nil {
		c.sampleSeen++
		if len(c.samples) < maxSamples {
			c.samples = append(c.samples, sampleEntry{h, sample()})
		} else {
			// replace the entry with the largest hash if this one is smaller
			maxI, maxH := -1, uint64(0)
			for i, s := range c.samples {
				if e := s.(sampleEntry); e.H >= maxH {
					maxI, maxH = i, e.H
				}
			}
			if h < maxH {
				c.samples[maxI] = sampleEntry{h, sample()}
			}
		}
	}
}

type sampleEntry struct {
	H uint64
	V any
}

// Label bumps a class counter without counting a case.
func (c *Collector) Label(l string) {
	c.mu.Lock()
	if !c.frozen {
		c.labels[l]++
	}
	c.mu.Unlock()
}

// Discard counts a case that was generated but not judged (budget hit etc.).
func (c *Collector) Discard(reason string) {
	c.mu.Lock()
	if !c.frozen {
		c.discarded[reason]++
	}
	c.mu.Unlock()
}

// Excluded counts a case whose shape was kept out of the search by
// construction because it is a listed known finding.
func (c *Collector) Excluded(signature string) {
	c.mu.Lock()
	if !c.frozen {
		c.excluded[signature]++
	}
	c.mu.Unlock()
}

// IsKnown tells whether signature is listed with status "known". If it is, the
// meeting is recorded (the driver prints the KNOWN-FINDING line) and the
// caller must treat the case as judged, not as a violation.
func (c *Collector) IsKnown(signature string) bool {
	c.mu.Lock()
	defer c.mu.Unlock()
	f, ok := c.known[signature]
	if ok {
		c.knownMet[signature]++
		c.knownWhat[signature] = f.What
	}
	return ok
}

// HasKnown reports whether a signature is listed, without recording a meeting.
func (c *Collector) HasKnown(signature string) bool {
	c.mu.Lock()
	defer c.mu.Unlock()
	_, ok := c.known[signature]
	return ok
}

// Set stores an extra coverage key.
func (c *Collector) Set(k string, v any) { c.mu.Lock(); c.extra[k] = v; c.mu.Unlock() }

// Add adds to an integer extra coverage key.
func (c *Collector) Add(k string, n int) {
	c.mu.Lock()
	if !c.frozen {
		cur, _ := c.extra[k].(int)
		c.extra[k] = cur + n
	}
	c.mu.Unlock()
}

// Evaluations returns the number of cases recorded so far.
func (c *Collector) Evaluations() int { c.mu.Lock(); defer c.mu.Unlock(); return c.evaluations }

// Nontrivial returns the number of non-trivial cases (not de-duplicated).
func (c *Collector) Nontrivial() int { c.mu.Lock(); defer c.mu.Unlock(); return c.nontrivial }

// LabelCount returns one class counter.
func (c *Collector) LabelCount(l string) int { c.mu.Lock(); defer c.mu.Unlock(); return c.labels[l] }

type shard struct {
	Property    string            `json:"property"`
	Rule        string            `json:"rule"`
	Assumptions []string          `json:"assumptions"`
	Evaluations int               `json:"evaluations"`
	Nontrivial  int               `json:"nontrivial"`
	Hashes      []string          `json:"hashes"`
	Labels      map[string]int    `json:"labels"`
	Samples     []any             `json:"samples"`
	KnownMet    map[string]int    `json:"known_met"`
	KnownWhat   map[string]string `json:"known_what"`
	Excluded    map[string]int    `json:"excluded_known"`
	Discarded   map[string]int    `json:"discarded"`
	Extra       map[string]any    `json:"extra"`
}

// Flush writes the shard file named by $VERIF_EVIDENCE_OUT (no-op if unset).
func (c *Collector) Flush() {
	out := os.Getenv("VERIF_EVIDENCE_OUT")
	if out == "" {
		return
	}
	c.mu.Lock()
	defer c.mu.Unlock()
	s := shard{
		Property: c.Property, Rule: c.Rule, Assumptions: c.Assumptions,
		Evaluations: c.evaluations, Nontrivial: c.nontrivial,
		Labels: c.labels, KnownMet: c.knownMet, KnownWhat: c.knownWhat,
		Excluded: c.excluded, Discarded: c.discarded, Extra: c.extra,
	}
	for h := range c.hashes {
		s.Hashes = append(s.Hashes, strconv.FormatUint(h, 36))
	}
	sort.Strings(s.Hashes)
	sort.Slice(c.samples, func(i, j int) bool { return c.samples[i].(sampleEntry).H < c.samples[j].(sampleEntry).H })
	for _, e := range c.samples {
		s.Samples = append(s.Samples, e.(sampleEntry).V)
	}
	b, err := json.Marshal(s)
	if err != nil {
		// a sample that cannot be rendered must not lose the counts
		s.Samples = []any{fmt.Sprintf("unrenderable sample: %v", err)}
		b, _ = json.Marshal(s)
	}
	tmp := out + ".tmp"
	if err := os.WriteFile(tmp, b, 0o644); err == nil {
		_ = os.Rename(tmp, out)
	}
}

// Key joins parts into a canonical key.
func Key(parts ...any) string {
	var sb strings.Builder
	for i, p := range parts {
		if i > 0 {
			sb.WriteByte('|')
		}
		fmt.Fprint(&sb, p)
	}
	return sb.String()
}
