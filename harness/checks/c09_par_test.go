package checks

// C09, parallel family: posting-mode requests of different shapes submitted at the same time. What a request
// is turned into before it runs (script text, compiled program, variable bindings) is keyed and cached per shape;
// none of that has a blocking point a scheduler could own, so several real goroutines are released together
// against one real Commander. Every answer must carry exactly the postings its own request asked for, and the
// log must hold them. The oracle is an invariant of each outcome: correct code cannot fail it whatever the timing.

import (
	"context"
	"fmt"
	"math/big"
	"sync"

	ledger "github.com/formancehq/ledger/internal"
	"github.com/formancehq/ledger/internal/engine/command"
	"github.com/formancehq/ledger/verifharness/enginesim"
	"github.com/formancehq/ledger/verifharness/evid"
	"github.com/formancehq/stack/libs/go-libs/logging"
	"github.com/formancehq/stack/libs/go-libs/metadata"
	"pgregory.net/rapid"
)

// c09Shape builds a posting list of one of several shapes over accounts private to the caller (every list is
// funded by its own first posting from world, so all of them must be accepted).
func c09Shape(shape int, p, q string, n int64) ledger.Postings {
	amt := func(k int64) *big.Int { return big.NewInt(k) }
	switch shape {
	case 0:
		return ledger.Postings{ledger.NewPosting("world", p, "USD", amt(10+n)), ledger.NewPosting("world", q, "USD", amt(5+n))}
	case 1:
		return ledger.Postings{ledger.NewPosting("world", p, "USD", amt(10+n)), ledger.NewPosting(p, q, "USD", amt(10+n))}
	case 2:
		return ledger.Postings{ledger.NewPosting("world", p, "USD", amt(10+n)), ledger.NewPosting("world", p, "USD", amt(5+n))}
	case 3:
		return ledger.Postings{ledger.NewPosting("world", p, "USD", amt(10+n)), ledger.NewPosting(p, "world", "USD", amt(3+n))}
	case 4:
		return ledger.Postings{ledger.NewPosting("world", q, "USD", amt(10+n)), ledger.NewPosting(q, p, "USD", amt(4+n))}
	default:
		return ledger.Postings{ledger.NewPosting("world", p, "USD", amt(10+n)), ledger.NewPosting("world", q, "EUR/2", amt(10+n))}
	}
}

func c09Parallel(rt *rapid.T, c *evid.Collector) {
	store, commander, stop := enginesim.Standalone()
	defer stop()
	ctx := logging.ContextWithLogger(context.Background(), parDiscard{})
	rounds := rapid.IntRange(10, 40).Draw(rt, "cpRounds")
	width := rapid.IntRange(2, 8).Draw(rt, "cpWidth")
	shapes := make([][]int, rounds)
	for r := range shapes {
		shapes[r] = rapid.SliceOfN(rapid.IntRange(0, 5), width, width).Draw(rt, "cpShapes")
	}
	type outcome struct {
		want ledger.Postings
		got  *ledger.Transaction
		err  error
		pn   any
	}
	var bad *outcome
	for r := 0; r < rounds && bad == nil; r++ {
		start := make(chan struct{})
		res := make([]outcome, width)
		var wg sync.WaitGroup
		for g := 0; g < width; g++ {
			res[g].want = c09Shape(shapes[r][g], fmt.Sprintf("p:r%d:g%d", r, g), fmt.Sprintf("q:r%d:g%d", r, g), int64(g))
			wg.Add(1)
			go func(g int) {
				defer wg.Done()
				<-start
				res[g].pn = safely(func() {
					res[g].got, res[g].err = commander.CreateTransaction(ctx, command.Parameters{}, ledger.TxToScriptData(ledger.TransactionData{Postings: res[g].want, Metadata: metadata.Metadata{}}, false))
				})
			}(g)
		}
		close(start)
		wg.Wait()
		for g := range res {
			o := &res[g]
			if o.pn != nil || o.err != nil || o.got == nil || !samePostingsExact(o.got.Postings, o.want) {
				bad = o
				break
			}
		}
	}
	c.Case(evid.Key("parallel", rounds, width, fmt.Sprint(shapes[0])), true, []string{"family:parallel-shapes", fmt.Sprintf("parallel-width:%d", width)}, func() any {
		return map[string]any{"family": "parallel shapes", "rounds": rounds, "goroutinesPerRound": width, "entries": store.Len()}
	})
	if bad != nil {
		sig := "C09/parallel/other-postings"
		if c.IsKnown(sig) {
			return
		}
		got := "nothing"
		switch {
		case bad.pn != nil:
			got = fmt.Sprint("a panic: ", bad.pn)
		case bad.err != nil:
			got = "the error " + bad.err.Error()
		case bad.got != nil:
			got = fmt.Sprint(bad.got.Postings)
		}
		violation(rt, c, sig, "%d requests of different shapes were submitted together; one asked for %v and was answered with %s", width, bad.want, got)
	}
}

func samePostingsExact(a, b ledger.Postings) bool {
	if len(a) != len(b) {
		return false
	}
	for i := range a {
		if a[i].Source != b[i].Source || a[i].Destination != b[i].Destination || a[i].Asset != b[i].Asset || a[i].Amount.Cmp(b[i].Amount) != 0 {
			return false
		}
	}
	return true
}
