package checks

// C17, token family: "every cursor token the server hands out is accepted back and stands for the same query".
// The tokens are the JSON form of the typed query (ledgerstore.Get*Query) passed through
// bunpaginate.EncodeCursor; the handlers take them back with bunpaginate.UnmarshalCursor. For generated queries
// of every list (page size, order, position, point in time, expansions, filter expression) the query that comes
// back must be the query that went out: compared through its own JSON form, which is what the next token is made of.

import (
	"encoding/json"
	"fmt"
	"math/big"

	ledger "github.com/formancehq/ledger/internal"
	"github.com/formancehq/ledger/internal/storage/ledgerstore"
	"github.com/formancehq/ledger/verifharness/evid"
	"github.com/formancehq/stack/libs/go-libs/bun/bunpaginate"
	"github.com/formancehq/stack/libs/go-libs/query"
	"pgregory.net/rapid"
)

func c17TokenRoundTrip(rt *rapid.T, c *evid.Collector) {
	pitf := ledgerstore.PITFilterWithVolumes{}
	var desc []string
	if rapid.Bool().Draw(rt, "tkPIT") {
		ts, _ := ledger.ParseTime(rapid.SampledFrom([]string{"2023-06-01T00:00:00Z", "2023-06-01T02:00:00+02:00", "1999-12-31T23:59:59.999999Z"}).Draw(rt, "tkPITValue"))
		pitf.PIT = &ts
		desc = append(desc, "pit")
	}
	if rapid.Bool().Draw(rt, "tkVolumes") {
		pitf.ExpandVolumes = true
		desc = append(desc, "volumes")
	}
	if rapid.Bool().Draw(rt, "tkEffective") {
		pitf.ExpandEffectiveVolumes = true
		desc = append(desc, "effectiveVolumes")
	}
	var qb query.Builder
	switch rapid.IntRange(0, 4).Draw(rt, "tkFilter") {
	case 1:
		qb = query.Match("metadata[k]", "v")
		desc = append(desc, "filter")
	case 2:
		qb = query.And(query.Match("reference", "r1"), query.Or(query.Lt("timestamp", "2023-01-01T00:00:00Z"), query.Not(query.Match("account", "users:"))))
		desc = append(desc, "filter:nested")
	case 3:
		qb = query.Gte("balance[USD]", 10)
		desc = append(desc, "filter:number")
	}
	pageSize := uint64(rapid.SampledFrom([]int{1, 2, 15, 1000}).Draw(rt, "tkPageSize"))
	list := rapid.SampledFrom([]string{"transactions", "accounts", "logs", "balances"}).Draw(rt, "tkList")
	var out any
	var back any
	switch list {
	case "transactions":
		q := ledgerstore.NewGetTransactionsQuery(ledgerstore.NewPaginatedQueryOptions(pitf).WithQueryBuilder(qb).WithPageSize(pageSize))
		if rapid.Bool().Draw(rt, "tkPositioned") {
			q.PaginationID = big.NewInt(int64(rapid.IntRange(0, 1000).Draw(rt, "tkAt")))
			q.Bottom = big.NewInt(int64(rapid.IntRange(0, 1000).Draw(rt, "tkBottom")))
			q.Reverse = rapid.Bool().Draw(rt, "tkReverse")
		}
		out, back = q, &ledgerstore.GetTransactionsQuery{}
	case "accounts":
		q := ledgerstore.NewGetAccountsQuery(ledgerstore.NewPaginatedQueryOptions(pitf).WithQueryBuilder(qb).WithPageSize(pageSize))
		q.Offset = uint64(rapid.SampledFrom([]int{0, 1, 15, 30}).Draw(rt, "tkOffset"))
		out, back = q, &ledgerstore.GetAccountsQuery{}
	case "logs":
		q := ledgerstore.NewGetLogsQuery(ledgerstore.PaginatedQueryOptions[any]{QueryBuilder: qb, PageSize: pageSize})
		if rapid.Bool().Draw(rt, "tkPositioned") {
			q.PaginationID = big.NewInt(int64(rapid.IntRange(0, 1000).Draw(rt, "tkAt")))
		}
		out, back = q, &ledgerstore.GetLogsQuery{}
	default:
		q := ledgerstore.NewGetAggregatedBalancesQuery(ledgerstore.NewPaginatedQueryOptions(pitf.PITFilter).WithQueryBuilder(qb).WithPageSize(pageSize))
		out, back = q, &ledgerstore.GetAggregatedBalanceQuery{}
	}
	before, err := json.Marshal(out)
	if err != nil {
		harnessError(rt, "query does not marshal: %v", err)
	}
	token := bunpaginate.EncodeCursor(out)
	key := evid.Key("token", list, fmt.Sprint(desc), pageSize, string(before))
	c.Case(key, len(desc) > 0, []string{"family:token-round-trip", "list:" + list}, func() any {
		return map[string]any{"family": "token round trip", "list": list, "query": json.RawMessage(before), "token": token}
	})
	fail := func(sig, format string, args ...any) {
		if !c.IsKnown(sig) {
			violation(rt, c, sig, format, args...)
		}
	}
	if err := bunpaginate.UnmarshalCursor(token, back); err != nil {
		fail("C17/token/rejected/"+list, "the token of a %s query (%v) is not accepted back: %v\nquery: %s", list, desc, err, before)
		return
	}
	after, err := json.Marshal(back)
	if err != nil {
		fail("C17/token/rejected/"+list, "the query taken back from a %s token does not marshal: %v", list, err)
		return
	}
	if string(after) != string(before) {
		fail("C17/token/other-query/"+list, "a %s token no longer stands for the query it was made from (%v):\n  out:  %s\n  back: %s", list, desc, before, after)
	}
}
