package checks

// C03, incomplete-portions family: "portions split the amount with nothing lost or created". A portioned source or
// destination written with literal portions that do not add up to the whole, and no `remaining`, does not say
// where the rest goes: such a program is refused; should one be accepted, the send must still move exactly the
// amount it states (minus what is marked kept). One oracle for both outcomes: refused, or the postings of the
// send add up to the stated amount.

import (
	"fmt"
	"math/big"
	"strings"

	"github.com/formancehq/ledger/verifharness/evid"
	"github.com/formancehq/ledger/verifharness/numgen"
	"pgregory.net/rapid"
)

func c03IncompletePortions(rt *rapid.T, c *evid.Collector) {
	// literal portions adding up to less than the whole
	sets := [][]string{{"50%", "25%"}, {"1/2", "1/4"}, {"1/3", "1/3"}, {"10%", "20%", "30%"}, {"1/7"}, {"99%"}, {"2/5", "1/5", "1/5"}, {"0%", "50%"}, {"33.3%", "33.3%", "33.3%"}}
	portions := rapid.SampledFrom(sets).Draw(rt, "ipPortions")
	amount := rapid.SampledFrom([]string{"100", "1", "7", "1000003", "18446744073709551617"}).Draw(rt, "ipAmount")
	side := rapid.SampledFrom([]string{"destination", "source", "destination-kept"}).Draw(rt, "ipSide")
	accounts := []string{"a", "b", "c", "d"}
	var sb strings.Builder
	env := &numgen.Env{Vars: map[string]string{}, Balances: map[string]map[string]*big.Int{}, Meta: map[string]map[string]string{}, ReqMeta: map[string]string{}}
	huge, _ := new(big.Int).SetString("100000000000000000000000", 10)
	switch side {
	case "destination", "destination-kept":
		fmt.Fprintf(&sb, "send [COIN %s] (\n  source = @world\n  destination = {\n", amount)
		for i, p := range portions {
			if side == "destination-kept" && i == len(portions)-1 {
				fmt.Fprintf(&sb, "    %s kept\n", p)
			} else {
				fmt.Fprintf(&sb, "    %s to @%s\n", p, accounts[i])
			}
		}
		sb.WriteString("  }\n)\n")
	default:
		fmt.Fprintf(&sb, "send [COIN %s] (\n  source = {\n", amount)
		for i, p := range portions {
			fmt.Fprintf(&sb, "    %s from @%s\n", p, accounts[i])
			env.Balances[accounts[i]] = map[string]*big.Int{"COIN": new(big.Int).Set(huge)}
		}
		sb.WriteString("  }\n  destination = @z\n)\n")
	}
	text := sb.String()
	impl := runImpl(text, env, nil)
	c.Case("incomplete:"+text, impl.Class == numgen.OK, []string{"family:incomplete-portions", "ip:" + side, "impl:" + impl.Class}, func() any {
		return map[string]any{"family": "incomplete portions", "script": text, "implementation": describeImpl(impl)}
	})
	if impl.Class == "panic" {
		if !c.IsKnown("C03/incomplete-portions/panic") {
			violation(rt, c, "C03/incomplete-portions/panic", "the implementation panicked (%v) on\n%s", impl.Panic, text)
		}
		return
	}
	if impl.Class != numgen.OK {
		return // refused: nothing moves
	}
	want, _ := new(big.Int).SetString(amount, 10)
	moved := new(big.Int)
	for _, p := range impl.Postings {
		moved.Add(moved, p.Amount)
	}
	if side == "destination-kept" {
		// what is marked kept stays with the source: at most the stated amount moves, and the kept share is the
		// floored fraction of the last portion (plus at most one leftover unit)
		if moved.Cmp(want) > 0 {
			if !c.IsKnown("C03/incomplete-portions/amount") {
				violation(rt, c, "C03/incomplete-portions/amount", "a send of %s moved %v:\n%s\npostings: %s", amount, moved, text, numgen.PostingsString(impl.Postings))
			}
		}
		return
	}
	if moved.Cmp(want) != 0 {
		if !c.IsKnown("C03/incomplete-portions/amount") {
			violation(rt, c, "C03/incomplete-portions/amount", "the program was accepted and its send of %s moved %v (the portions %v do not say where the rest goes):\n%s\npostings: %s", amount, moved, portions, text, numgen.PostingsString(impl.Postings))
		}
	}
}
