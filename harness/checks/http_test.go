package checks

// C19 (read-only mode executes no write) and C18 (bulk requests) over the
// real routers and a recording fake backend (harness/httpsim).

import (
	"encoding/json"
	"fmt"
	"math/big"
	"net/http"
	"sort"
	"strings"
	"testing"

	ledger "github.com/formancehq/ledger/internal"
	"github.com/formancehq/ledger/internal/api/backend"
	"github.com/formancehq/ledger/verifharness/enginesim"
	"github.com/formancehq/ledger/verifharness/evid"
	"github.com/formancehq/ledger/verifharness/httpsim"
	"pgregory.net/rapid"
)

func bulkBodyAllActions() string {
	return `[{"action":"CREATE_TRANSACTION","ik":"a","data":{"postings":[{"source":"world","destination":"a","asset":"USD","amount":1}]}},` +
		`{"action":"ADD_METADATA","data":{"targetType":"ACCOUNT","targetId":"a","metadata":{"k":"v"}}},` +
		`{"action":"REVERT_TRANSACTION","data":{"id":0,"force":true}},` +
		`{"action":"DELETE_METADATA","data":{"targetType":"TRANSACTION","targetId":0,"key":"k"}}]`
}

var c19Bodies = []string{
	`{"postings":[{"source":"world","destination":"a","asset":"USD","amount":1}],"metadata":{"k":"v"}}`,
	`{"script":{"plain":"send [USD 1] (\n source = @world\n destination = @a\n)","vars":{}}}`,
	`{"k":"v"}`,
	``,
	`{}`,
	`[]`,
	`not json`,
	`{"$match":{"address":"a"}}`,
}

func c19Instantiate(t *rapid.T, pattern string) string {
	rep := func(name string, values []string) {
		for strings.Contains(pattern, "{"+name+"}") {
			pattern = strings.Replace(pattern, "{"+name+"}", rapid.SampledFrom(values).Draw(t, name), 1)
		}
	}
	// percent-encoded separators and dots: routers that match on the encoded path and middlewares that look at
	// the decoded one do not see the same segments
	rep("ledger", []string{"l1", "default", "fresh1", "fresh2", "v2", "v2x", "v2-eu", "v1", "api", "_info", "_bulk", "transactions", "a-b_c", "x", "team%2Fpay", "l1%2f", "%2e%2e", "l%201", "a%3Ab", "l1%3Fx"})
	rep("id", []string{"0", "1", "42", "abc", "18446744073709551616", "-1", "0%2F1", "%30"})
	rep("address", []string{"a", "users:001", "a:b:c", "world", "bad--addr", "users%3A001", "a%2Fb"})
	rep("key", []string{"k", "a-b", "x y", "kyc%2Flevel", "k%2fx"})
	pattern = strings.ReplaceAll(pattern, "/*", "/")
	for strings.Contains(pattern, "//") {
		pattern = strings.ReplaceAll(pattern, "//", "/")
	}
	return pattern
}

func writeKinds(calls []httpsim.Call) string {
	m := map[string]bool{}
	for _, c := range calls {
		m[c.Kind] = true
	}
	ks := make([]string, 0, len(m))
	for k := range m {
		ks = append(ks, k)
	}
	sort.Strings(ks)
	return strings.Join(ks, "+")
}

func TestC19(t *testing.T) {
	c := evid.New("C19")
	c.Rule = "requests built from every route registered on the read-write router (walked with chi.Walk, so new routes are picked up), patterns instantiated with generated ledger names / ids / addresses / keys, plus paths assembled from route fragments; methods GET HEAD OPTIONS POST PUT PATCH DELETE TRACE CONNECT, lower-case and invented verbs; method-override headers and query parameters; bodies valid for the write routes (postings, script, metadata, bulk with all four actions) and junk; queries dryRun / cursor / continueOnFailure / pit. One case in twenty is an overlap: 1-3 write requests whose bodies arrive slowly (a reader the harness unblocks) sit in the gate while read requests pass, then the bodies end in a drawn order. Oracle: zero calls to CreateTransaction / RevertTransaction / SaveMeta / DeleteMetadata on the backend of the read-only router. Non-trivial = the same request performs at least one write through the read-write router; distinct by (method, route pattern, write kinds)."
	c.Assumptions = []string{"the backend is a recording fake; what counts is whether a write method is invoked at all"}
	rwRoutes := httpsim.Routes(httpsim.NewRouter(httpsim.NewFakeBackend(), false))
	if len(rwRoutes) < 20 {
		t.Fatalf("HARNESS-ERROR only %d routes found", len(rwRoutes))
	}
	var writeRoutes [][2]string
	for _, r := range rwRoutes {
		if r[0] != "GET" && r[0] != "HEAD" && r[0] != "OPTIONS" {
			writeRoutes = append(writeRoutes, r)
		}
	}
	reached := map[string]bool{}
	runProp(t, c, func(rt *rapid.T) {
		if rapid.IntRange(0, 19).Draw(rt, "overlapFamily") == 0 {
			c19Overlap(rt, c, writeRoutes)
			return
		}
		roBackend, rwBackend := httpsim.NewFakeBackend(), httpsim.NewFakeBackend()
		// some ledger names do not exist yet (v1 creates a ledger on first use, v2 answers not found)
		fresh := func(name string) bool { return strings.HasPrefix(name, "fresh") }
		roBackend.Missing, rwBackend.Missing = fresh, fresh
		ro, rw := httpsim.NewRouter(roBackend, true), httpsim.NewRouter(rwBackend, false)
		route := rapid.SampledFrom(rwRoutes).Draw(rt, "route")
		if rapid.Bool().Draw(rt, "preferWriteRoute") {
			route = rapid.SampledFrom(writeRoutes).Draw(rt, "writeRoute")
		}
		pattern := route[1]
		path := c19Instantiate(rt, pattern)
		method := route[0]
		switch rapid.IntRange(0, 9).Draw(rt, "methodMode") {
		case 0, 1, 2:
			method = rapid.SampledFrom([]string{"GET", "HEAD", "OPTIONS", "POST", "PUT", "PATCH", "DELETE", "TRACE", "CONNECT", "get", "post", "Post", "FOO", "GETX", " POST"}).Draw(rt, "method")
		case 3:
			// the handler's own method against a path assembled from two routes
			other := rapid.SampledFrom(rwRoutes).Draw(rt, "route2")
			cut := strings.LastIndex(path, "/")
			path = path[:cut] + c19Instantiate(rt, other[1][strings.LastIndex(other[1], "/"):])
			pattern = "spliced"
		}
		q := []string{}
		for _, kv := range []string{"dryRun=true", "continueOnFailure=true", "cursor=eyJ9", "pit=2023-01-01T00:00:00Z", "_method=POST", "method=POST", "expand=volumes", "pageSize=1", "force=true", "disableChecks=true"} {
			if rapid.IntRange(0, 6).Draw(rt, "q") == 0 {
				q = append(q, kv)
			}
		}
		target := path
		if len(q) > 0 {
			target += "?" + strings.Join(q, "&")
		}
		hdr := map[string]string{"Content-Type": "application/json"}
		for _, h := range [][2]string{{"X-HTTP-Method-Override", "POST"}, {"X-HTTP-Method", "DELETE"}, {"X-Method-Override", "POST"}, {"Idempotency-Key", "ik1"}, {"Access-Control-Request-Method", "POST"}, {"Origin", "http://x"}} {
			if rapid.IntRange(0, 6).Draw(rt, "h") == 0 {
				hdr[h[0]] = h[1]
			}
		}
		body := rapid.SampledFrom(c19Bodies).Draw(rt, "body")
		if strings.HasSuffix(pattern, "_bulk") || rapid.IntRange(0, 9).Draw(rt, "bulkBody") == 0 {
			body = bulkBodyAllActions()
		}
		recRO := httpsim.Serve(ro, method, target, hdr, body)
		// a server is asked the same thing more than once: what it refused it refuses again
		for i, n := 0, rapid.SampledFrom([]int{0, 0, 1, 3}).Draw(rt, "sameAgain"); i < n; i++ {
			recRO = httpsim.Serve(ro, method, target, hdr, body)
		}
		recRW := httpsim.Serve(rw, method, target, hdr, body)
		roWrites, rwWrites := roBackend.Writes(), rwBackend.Writes()
		nontrivial := len(rwWrites) > 0
		labels := []string{"method:" + strings.ToUpper(strings.TrimSpace(method)), fmt.Sprintf("ro-status:%d", recRO.Code/100*100)}
		if nontrivial {
			k := strings.ToUpper(strings.TrimSpace(method)) + " " + pattern + " -> " + writeKinds(rwWrites)
			labels = append(labels, "writes-in-rw:"+writeKinds(rwWrites))
			if !reached[k] {
				reached[k] = true
			}
		}
		c.Case(evid.Key(method, pattern, writeKinds(rwWrites)), nontrivial, labels, func() any {
			return map[string]any{"method": method, "target": target, "headers": hdr, "body": body, "readOnlyStatus": recRO.Code, "readWriteStatus": recRW.Code, "writesInReadWriteMode": writeKinds(rwWrites)}
		})
		if len(roWrites) > 0 {
			sig := "C19/write-in-read-only/" + writeKinds(roWrites)
			if !c.IsKnown(sig) {
				violation(rt, c, sig, "read-only router executed %d write(s) [%s] for %s %s (status %d)\nheaders=%v\nbody=%s", len(roWrites), writeKinds(roWrites), method, target, recRO.Code, hdr, body)
			}
		}
	})
	keys := make([]string, 0, len(reached))
	for k := range reached {
		keys = append(keys, k)
	}
	sort.Strings(keys)
	c.Set("write_routes_reached_in_read_write_mode", keys)
	c.Set("routes_walked", len(rwRoutes))
	c.Flush()
}

// ---------------------------------------------------------------------------
// C18

type bulkElem struct {
	Action   string
	IK       string
	Data     string
	Known    bool   // action is one of the four
	Kind     string // backend call kind
	Marker   string
	BadData  bool
	FailWith string
}

var bulkKinds = map[string]string{"CREATE_TRANSACTION": "create", "ADD_METADATA": "save_meta", "REVERT_TRANSACTION": "revert", "DELETE_METADATA": "delete_meta"}

func genBulkElem(t *rapid.T, i int) bulkElem {
	e := bulkElem{Marker: fmt.Sprint(1000 + i)}
	e.Action = rapid.SampledFrom([]string{"CREATE_TRANSACTION", "CREATE_TRANSACTION", "ADD_METADATA", "REVERT_TRANSACTION", "DELETE_METADATA", "CREATE_TRANSACTION", "ADD_METADATA", "REVERT_TRANSACTION", "DELETE_METADATA", "create_transaction", "UNKNOWN", "", "REVERT"}).Draw(t, "action")
	e.Kind, e.Known = bulkKinds[e.Action]
	if rapid.IntRange(0, 2).Draw(t, "hasIK") == 0 {
		e.IK = "ik" + e.Marker
	}
	shape := e.Action
	if !e.Known {
		shape = rapid.SampledFrom([]string{"CREATE_TRANSACTION", "ADD_METADATA", "REVERT_TRANSACTION", "DELETE_METADATA"}).Draw(t, "shape")
	}
	switch shape {
	case "CREATE_TRANSACTION":
		if rapid.IntRange(0, 5).Draw(t, "bothModes") == 0 {
			// postings and a script in one element: the bulk endpoint does not refuse it, the postings are used
			e.Data = `{"postings":[{"source":"world","destination":"a","asset":"USD","amount":1}],"script":{"plain":"send [USD 2] (\n source = @world\n destination = @zz\n)","vars":{}},"metadata":{"el":"` + e.Marker + `"}}`
		} else if rapid.Bool().Draw(t, "scriptMode") {
			e.Data = `{"script":{"plain":"send [USD 1] (\n source = @world\n destination = @a\n)","vars":{}},"metadata":{"el":"` + e.Marker + `"}}`
		} else {
			e.Data = `{"postings":[{"source":"world","destination":"a","asset":"USD","amount":1}],"metadata":{"el":"` + e.Marker + `"},"reference":"r` + e.Marker + `"}`
		}
	case "ADD_METADATA":
		// the metadata may be empty or absent: whether the element succeeds is still the ledger's call
		md := rapid.SampledFrom([]string{`,"metadata":{"el":"` + e.Marker + `"}`, `,"metadata":{"el":"` + e.Marker + `"}`, `,"metadata":{}`, ``, `,"metadata":null`}).Draw(t, "addMeta")
		if rapid.Bool().Draw(t, "onTx") {
			e.Data = `{"targetType":"TRANSACTION","targetId":` + e.Marker + md + `}`
		} else {
			e.Data = `{"targetType":"ACCOUNT","targetId":"acc` + e.Marker + `"` + md + `}`
		}
	case "REVERT_TRANSACTION":
		e.Data = `{"id":` + e.Marker + `,"force":` + fmt.Sprint(rapid.Bool().Draw(t, "force")) + `}`
	case "DELETE_METADATA":
		if rapid.Bool().Draw(t, "onTx") {
			e.Data = `{"targetType":"TRANSACTION","targetId":` + e.Marker + `,"key":"k` + e.Marker + `"}`
		} else {
			e.Data = `{"targetType":"ACCOUNT","targetId":"acc` + e.Marker + `","key":"k` + e.Marker + `"}`
		}
	}
	return e
}

func callMarker(c httpsim.Call) string {
	switch c.Kind {
	case "create":
		return c.Script.Metadata["el"]
	case "revert":
		if c.TxID != nil {
			return c.TxID.String()
		}
	case "save_meta":
		if m := c.Meta["el"]; m != "" {
			return m
		}
		// no marker in the metadata: the target carries it
		return strings.TrimPrefix(fmt.Sprint(c.TargetID), "acc")
	case "delete_meta":
		return strings.TrimPrefix(c.Key, "k")
	}
	return "?"
}

func TestC18(t *testing.T) {
	c := evid.New("C18")
	c.Rule = "bulk bodies of 0-8 elements over the four actions plus unknown / wrong-case / empty action strings, well-formed data per action (posting and script mode, account and transaction targets), per-element ik, a generated success/failure pattern with error classes (insufficient funds, conflict, compilation failed, no postings, metadata override, not found, internal; and the ledger panicking under the element: the request dies there and must not be answered like a success), continueOnFailure in {absent,true,false,1,TRUE}; side class: one element whose data does not decode. Oracle (positional model): backend calls == executable elements up to and including the first failure (all of them with continue-on-failure), in order, each with its own parameters and ik; exactly one result per processed element, results[i] describing element i; nothing after the first failure; HTTP 400 iff a processed element failed. A second family (25%) serves the bulk through a real Commander over the model store with elements whose outcome is known by construction (funded / unfunded sources, existing / missing revert and metadata targets; metadata elements whose target the engine cannot look at -- unknown target type, non-string account id -- at which the request dies): besides the positional answer, the persisted log must hold exactly the successful elements, in order. A fourth family (5%) is scheduled: 2-5 bulk requests are executed, parked between execution and the writing of their response (verifhook point bulk.processed) and answered in a generated order on one processor, each answer judged position by position. A third family (5%) is concurrent: 2-8 clients send bulks of 1-40 marked elements (10% failing, continue-on-failure drawn) for 1-6 rounds in parallel against one router; every answer must describe its own request position by position, with its own failure signal, and each ledger must have received exactly its own elements in order. Non-trivial = >=3 elements with a failure strictly inside; distinct by (actions, failure pattern, flag)."
	c.Assumptions = []string{"the backend is a recording fake answering from the generated failure pattern; an element with an unknown action cannot be executed and therefore counts as failing"}
	runProp(t, c, func(rt *rapid.T) {
		if rapid.IntRange(0, 3).Draw(rt, "realEngine") == 0 {
			c18RealEngine(rt, c)
			return
		}
		if rapid.IntRange(0, 19).Draw(rt, "concurrent") == 0 {
			c18Concurrent(rt, c)
			return
		}
		if rapid.IntRange(0, 19).Draw(rt, "scheduled") == 0 {
			c18Scheduled(rt, c)
			return
		}
		n := rapid.IntRange(0, 8).Draw(rt, "n")
		elems := make([]bulkElem, n)
		for i := range elems {
			elems[i] = genBulkElem(rt, i)
		}
		badIdx := -1
		if n > 0 && rapid.IntRange(0, 7).Draw(rt, "badData") == 0 {
			badIdx = rapid.IntRange(0, n-1).Draw(rt, "badIdx")
			if elems[badIdx].Known {
				elems[badIdx].Data = rapid.SampledFrom([]string{`"x"`, `[1]`, `12`, `true`}).Draw(rt, "bad") // not an object: no action can decode it
				elems[badIdx].BadData = true
			} else {
				badIdx = -1
			}
		}
		failClass := make([]string, n)
		for i := range failClass {
			if rapid.IntRange(0, 3).Draw(rt, "fails") == 0 {
				failClass[i] = rapid.SampledFrom([]string{"INSUFFICIENT_FUND", "VALIDATION", "NOT_FOUND", "INTERNAL", "COMPILATION_FAILED", "NO_POSTINGS", "METADATA_OVERRIDE", "INSUFFICIENT_FUND", "VALIDATION", "NOT_FOUND", "INTERNAL", "PANIC"}).Draw(rt, "class")
			}
		}
		flag := rapid.SampledFrom([]string{"", "", "continueOnFailure=true", "continueOnFailure=false", "continueOnFailure=1", "continueOnFailure=TRUE", "continueOnFailure=yes"}).Draw(rt, "flag")
		cont := flag == "continueOnFailure=true" || flag == "continueOnFailure=1" || flag == "continueOnFailure=TRUE"
		// the fake decides failure by the element marker of the call it receives
		byMarker := map[string]string{}
		for i, e := range elems {
			byMarker[e.Marker] = failClass[i]
		}
		be := httpsim.NewFakeBackend()
		fl := &httpsim.FakeLedger{Name: "l1"}
		be.Ledgers["l1"] = fl
		var parts []string
		for _, e := range elems {
			ik := ""
			if e.IK != "" {
				ik = `,"ik":"` + e.IK + `"`
			}
			parts = append(parts, `{"action":"`+e.Action+`"`+ik+`,"data":`+e.Data+`}`)
		}
		body := "[" + strings.Join(parts, ",") + "]"
		// install the failure plan keyed by marker
		failNext := map[int]string{}
		fl.Fail = func(k int, kind string) string { return failNext[k] }
		// pre-compute: the k-th call is the k-th executable processed element
		k := 0
		for i, e := range elems {
			if !e.Known || e.BadData {
				continue
			}
			failNext[k] = failClass[i]
			k++
		}
		router := httpsim.NewRouter(be, false)
		target := "/api/ledger/v2/l1/_bulk"
		if flag != "" {
			target += "?" + flag
		}
		rec := httpsim.Serve(router, http.MethodPost, target, map[string]string{"Content-Type": "application/json"}, body)

		// positional model
		type exp struct {
			idx    int
			failed bool
			call   bool
		}
		var processed []exp
		stoppedByBad := false
		blewUp := false
		for i, e := range elems {
			if e.BadData {
				stoppedByBad = true
				break
			}
			failed := !e.Known || failClass[i] != ""
			processed = append(processed, exp{idx: i, failed: failed, call: e.Known})
			if e.Known && failClass[i] == "PANIC" {
				// the ledger blows up under this element: the request dies there whatever the flag says
				blewUp = true
				break
			}
			if failed && !cont {
				break
			}
		}
		anyFailed := false
		firstFail := -1
		for pi, p := range processed {
			if p.failed {
				anyFailed = true
				if firstFail < 0 {
					firstFail = pi
				}
			}
		}
		labels := []string{fmt.Sprintf("elements:%d", n), "flag:" + flag}
		if anyFailed {
			labels = append(labels, "has-failure")
		}
		if stoppedByBad {
			labels = append(labels, "undecodable-data")
		}
		if blewUp {
			labels = append(labels, "ledger-panics")
		}
		for _, e := range elems {
			if !e.Known {
				labels = append(labels, "unknown-action")
				break
			}
		}
		nontrivial := n >= 3 && firstFail > 0 && firstFail < n-1
		var pat []string
		for i, e := range elems {
			pat = append(pat, e.Action+":"+failClass[i])
		}
		c.Case(evid.Key(strings.Join(pat, ","), flag, badIdx), nontrivial, labels, func() any {
			return map[string]any{"body": json.RawMessage(body), "query": flag, "failurePattern": failClass, "status": rec.Code, "response": rec.Body.String()}
		})
		fail := func(sig, format string, args ...any) {
			if c.IsKnown(sig) {
				return
			}
			rt.Logf("body: %s\nquery: %s\nfailure pattern: %v\nstatus: %d\nresponse: %s", body, flag, failClass, rec.Code, rec.Body.String())
			violation(rt, c, sig, format, args...)
		}
		calls := fl.Calls
		// calls == executable processed elements, in order, with their parameters
		var wantCalls []int
		for _, p := range processed {
			if p.call {
				wantCalls = append(wantCalls, p.idx)
			}
		}
		if stoppedByBad {
			// only the unambiguous part: nothing at or after the undecodable element ran, and failure is signalled
			for _, cl := range calls {
				m := callMarker(cl)
				for i := badIdx; i < n; i++ {
					if elems[i].Marker == m {
						fail("C18/executed-after-undecodable", "element %d was executed although element %d cannot be decoded", i, badIdx)
						return
					}
				}
			}
			if rec.Code < 400 {
				fail("C18/undecodable-not-signalled", "an element whose data does not decode was answered with status %d", rec.Code)
			}
			return
		}
		if len(calls) != len(wantCalls) {
			var got []string
			for _, cl := range calls {
				got = append(got, cl.Kind+"#"+callMarker(cl))
			}
			sig := "C18/executed-set"
			if len(calls) > len(wantCalls) {
				sig = "C18/executed-after-failure"
			}
			fail(sig, "backend received %d call(s) %v, the request defines %d (elements %v)", len(calls), got, len(wantCalls), wantCalls)
			return
		}
		for ci, cl := range calls {
			e := elems[wantCalls[ci]]
			if cl.Kind != e.Kind || callMarker(cl) != e.Marker {
				fail("C18/order", "call %d is %s#%s, expected element %d (%s#%s)", ci, cl.Kind, callMarker(cl), wantCalls[ci], e.Kind, e.Marker)
				return
			}
			if cl.Params.IdempotencyKey != e.IK || cl.Params.DryRun {
				fail("C18/parameters", "call %d (element %d) carried ik=%q dryRun=%v, the element says ik=%q", ci, wantCalls[ci], cl.Params.IdempotencyKey, cl.Params.DryRun, e.IK)
				return
			}
		}
		if blewUp {
			// what the dying request answers position by position is not defined; that it must not look like a success is
			if rec.Code < 400 {
				fail("C18/panic-not-signalled", "the ledger blew up under element %d and the request was answered with status %d", processed[len(processed)-1].idx, rec.Code)
			}
			return
		}
		// response
		var resp struct {
			Data []struct {
				ResponseType string          `json:"responseType"`
				ErrorCode    string          `json:"errorCode"`
				Data         json.RawMessage `json:"data"`
			} `json:"data"`
		}
		if err := json.Unmarshal(rec.Body.Bytes(), &resp); err != nil {
			fail("C18/response-undecodable", "response does not decode: %v", err)
			return
		}
		if len(resp.Data) != len(processed) {
			sig := "C18/result-count"
			for _, p := range processed {
				if !elems[p.idx].Known {
					sig = "C18/unknown-action/no-result"
				}
			}
			fail(sig, "the response has %d result(s) for %d processed element(s)", len(resp.Data), len(processed))
			return
		}
		for pi, p := range processed {
			r := resp.Data[pi]
			e := elems[p.idx]
			if p.failed {
				if r.ResponseType != "ERROR" || r.ErrorCode == "" {
					fail("C18/position", "result %d should report the failure of element %d (%s) but is %q", pi, p.idx, e.Action, r.ResponseType)
					return
				}
				if e.Known {
					want := map[string]map[string]string{
						"create":      {"INSUFFICIENT_FUND": "INSUFFICIENT_FUND", "VALIDATION": "VALIDATION", "NOT_FOUND": "VALIDATION", "INTERNAL": "INTERNAL"},
						"revert":      {"INSUFFICIENT_FUND": "VALIDATION", "VALIDATION": "VALIDATION", "NOT_FOUND": "VALIDATION", "INTERNAL": "INTERNAL"},
						"save_meta":   {"INTERNAL": "INTERNAL"},
						"delete_meta": {"INTERNAL": "INTERNAL"},
					}[e.Kind][failClass[p.idx]]
					if want != "" && r.ErrorCode != want {
						fail("C18/error-code", "result %d (element %d, %s failing with %s) has errorCode %q, expected %q", pi, p.idx, e.Action, failClass[p.idx], r.ErrorCode, want)
						return
					}
				}
			} else if r.ResponseType != e.Action {
				fail("C18/position", "result %d has responseType %q but element %d is %s", pi, r.ResponseType, p.idx, e.Action)
				return
			}
		}
		if anyFailed != (rec.Code >= 400) {
			fail("C18/status", "status %d although failed=%v", rec.Code, anyFailed)
			return
		}
	})
}

// c18RealEngine: bulk elements with outcomes known by construction, executed by a real Commander.
func c18RealEngine(rt *rapid.T, c *evid.Collector) { bulkOverEngine(rt, c, "C18") }

// bulkOverEngine serves one generated bulk through the real v2 router over a real Commander (elements whose
// outcome is known by construction, some carrying an idempotency key of their own) and compares the answer and
// the persisted log with the request. prop is the property whose check runs it (C18, and C06 for the
// acknowledged-means-persisted reading of the same observation).
func bulkOverEngine(rt *rapid.T, c *evid.Collector, prop string) {
	store, commander, stop := enginesim.Standalone()
	defer stop()
	be := httpsim.NewFakeBackend()
	be.Override = func(name string) backend.Ledger {
		return &httpsim.EngineLedger{FakeLedger: &httpsim.FakeLedger{Name: name}, Commander: commander}
	}
	router := httpsim.NewRouter(be, false)
	n := rapid.IntRange(1, 8).Draw(rt, "rn")
	type el struct {
		body string
		ok   bool
		kind string
		mark string
	}
	aborting := map[int]bool{} // positions of elements whose target the engine cannot even look at: the request dies there
	var els []el
	txs := 0 // transactions committed so far in this bulk (ids are 0,1,2,...)
	reverted := map[int]bool{}
	simulate := func(upto int, cont bool) {}
	_ = simulate
	// the outcome of an element depends on what ran before it; elements are built against the
	// state the bulk will have if every earlier element ran (continue-on-failure) -- failing
	// elements leave no trace, so the state is the same without continue-on-failure up to the stop
	for i := 0; i < n; i++ {
		mark := fmt.Sprint(2000 + i)
		switch rapid.SampledFrom([]string{"fund", "fund", "spend-unfunded", "revert-ok", "revert-ok", "revert-spent", "revert-missing", "meta-account", "meta-missing-tx", "delete-account", "unknown", "odd-target"}).Draw(rt, "rkind") {
		case "odd-target":
			// a metadata element whose target is of no known type, or an account target that is not a string
			act := rapid.SampledFrom([]string{"ADD_METADATA", "DELETE_METADATA"}).Draw(rt, "oddAction")
			tgt := rapid.SampledFrom([]string{`"targetType":"FOO","targetId":"x"`, `"targetType":"","targetId":"x"`, `"targetType":"account","targetId":"x"`, `"targetType":"ACCOUNT","targetId":12`, `"targetType":"ACCOUNT","targetId":{"a":1}`}).Draw(rt, "oddTarget")
			aborting[len(els)] = true
			els = append(els, el{`{"action":"` + act + `","data":{` + tgt + `,"metadata":{"el":"` + mark + `"},"key":"k` + mark + `"}}`, false, "odd", mark})
		case "revert-spent":
			// a transaction whose funds have moved on cannot be reverted unless the element says force: the
			// element carries no force key at all (whatever an earlier element said must not stick)
			els = append(els, el{`{"action":"CREATE_TRANSACTION","data":{"postings":[{"source":"world","destination":"acc` + mark + `","asset":"USD","amount":5}],"metadata":{"el":"` + mark + `"}}}`, true, "tx", mark})
			els = append(els, el{`{"action":"CREATE_TRANSACTION","data":{"postings":[{"source":"acc` + mark + `","destination":"gone","asset":"USD","amount":5}],"metadata":{"el":"` + mark + `s"}}}`, true, "tx", mark + "s"})
			els = append(els, el{fmt.Sprintf(`{"action":"REVERT_TRANSACTION","data":{"id":%d}}`, txs), false, "revert", fmt.Sprint(txs)})
			txs += 2
		case "fund":
			els = append(els, el{`{"action":"CREATE_TRANSACTION","data":{"postings":[{"source":"world","destination":"acc` + mark + `","asset":"USD","amount":5}],"metadata":{"el":"` + mark + `"}}}`, true, "tx", mark})
			txs++
		case "spend-unfunded":
			els = append(els, el{`{"action":"CREATE_TRANSACTION","data":{"postings":[{"source":"empty` + mark + `","destination":"x","asset":"USD","amount":5}],"metadata":{"el":"` + mark + `"}}}`, false, "tx", mark})
		case "revert-ok":
			target := -1
			for t := 0; t < txs; t++ {
				if !reverted[t] {
					target = t
					break
				}
			}
			if target < 0 {
				els = append(els, el{`{"action":"REVERT_TRANSACTION","data":{"id":999,"force":false}}`, false, "revert", mark})
				break
			}
			reverted[target] = true
			els = append(els, el{fmt.Sprintf(`{"action":"REVERT_TRANSACTION","data":{"id":%d,"force":true}}`, target), true, "revert", fmt.Sprint(target)})
			txs++
			reverted[txs-1] = true // a reverting transaction is not reverted again here
		case "revert-missing":
			els = append(els, el{`{"action":"REVERT_TRANSACTION","data":{"id":777,"force":false}}`, false, "revert", mark})
		case "meta-account":
			els = append(els, el{`{"action":"ADD_METADATA","data":{"targetType":"ACCOUNT","targetId":"acc` + mark + `","metadata":{"el":"` + mark + `"}}}`, true, "meta", mark})
		case "meta-missing-tx":
			els = append(els, el{`{"action":"ADD_METADATA","data":{"targetType":"TRANSACTION","targetId":555,"metadata":{"el":"` + mark + `"}}}`, false, "meta", mark})
		case "delete-account":
			els = append(els, el{`{"action":"DELETE_METADATA","data":{"targetType":"ACCOUNT","targetId":"acc` + mark + `","key":"k` + mark + `"}}`, true, "delete", mark})
		case "unknown":
			els = append(els, el{`{"action":"NOPE","data":{}}`, false, "unknown", mark})
		}
	}
	cont := rapid.Bool().Draw(rt, "rcont")
	var parts []string
	keyOf := map[int]string{}
	for i, e := range els {
		// some elements carry an idempotency key of their own: it is theirs alone ...
		if rapid.IntRange(0, 2).Draw(rt, "rik") == 0 && strings.HasPrefix(e.body, `{"action":"`) {
			keyOf[i] = "rik-" + fmt.Sprint(i)
			// ... unless a metadata element comes with the key of an earlier successful element that produced a
			// transaction: a key that belongs to a write of another kind is refused
			if e.kind == "meta" || e.kind == "delete" {
				for j := 0; j < i; j++ {
					if k, ok := keyOf[j]; ok && els[j].ok && (els[j].kind == "tx" || els[j].kind == "revert") && rapid.Bool().Draw(rt, "rikReuse") {
						keyOf[i] = k
						els[i].ok = false
						e.ok = false
						break
					}
				}
			}
			e.body = `{"ik":"` + keyOf[i] + `",` + e.body[1:]
		}
		parts = append(parts, e.body)
	}
	body := "[" + strings.Join(parts, ",") + "]"
	target := "/api/ledger/v2/l1/_bulk"
	if cont {
		target += "?continueOnFailure=true"
	}
	rec := httpsim.Serve(router, http.MethodPost, target, map[string]string{"Content-Type": "application/json"}, body)
	// model
	var processed []int
	anyFailed := false
	firstFail := -1
	aborted := false
	for i, e := range els {
		processed = append(processed, i)
		if !e.ok {
			anyFailed = true
			if firstFail < 0 {
				firstFail = i
			}
			if aborting[i] {
				aborted = true
				break
			}
			if !cont {
				break
			}
		}
	}
	var pat []string
	for _, e := range els {
		pat = append(pat, fmt.Sprintf("%s:%v", e.kind, e.ok))
	}
	c.Case(evid.Key("real", strings.Join(pat, ","), cont), len(els) >= 3 && firstFail > 0 && firstFail < len(els)-1, []string{"real-engine", fmt.Sprintf("real-elements:%d", len(els))}, func() any {
		return map[string]any{"family": "real engine", "body": json.RawMessage(body), "continueOnFailure": cont, "status": rec.Code, "response": clip(rec.Body.String())}
	})
	fail := func(sig, format string, args ...any) {
		if c.IsKnown(sig) {
			return
		}
		rt.Logf("body: %s\ncontinueOnFailure: %v\nstatus: %d\nresponse: %s", body, cont, rec.Code, clip(rec.Body.String()))
		violation(rt, c, sig, format, args...)
	}
	var resp struct {
		Data []struct {
			ResponseType string          `json:"responseType"`
			ErrorCode    string          `json:"errorCode"`
			Data         json.RawMessage `json:"data"`
		} `json:"data"`
	}
	if aborted {
		// the request died at that element: the answer need not be positional, but it must not look like a success
		if rec.Code < 400 {
			fail(prop+"/abort-not-signalled", "element %d cannot be executed at all and the request was answered with status %d", processed[len(processed)-1], rec.Code)
			return
		}
	} else if err := json.Unmarshal(rec.Body.Bytes(), &resp); err != nil {
		fail(prop+"/response-undecodable", "response does not decode: %v", err)
		return
	} else if len(resp.Data) != len(processed) {
		fail(prop+"/result-count", "the response has %d result(s) for %d processed element(s)", len(resp.Data), len(processed))
		return
	}
	for pi, i := range processed {
		if aborted {
			break
		}
		isErr := resp.Data[pi].ResponseType == "ERROR"
		if isErr == els[i].ok {
			fail(prop+"/position", "result %d says error=%v but element %d (%s) %s", pi, isErr, i, els[i].kind, map[bool]string{true: "must succeed", false: "must fail"}[els[i].ok])
			return
		}
	}
	if anyFailed != (rec.Code >= 400) {
		fail(prop+"/status", "status %d although failed=%v", rec.Code, anyFailed)
		return
	}
	// the persisted log holds exactly the successful processed elements, in order
	var want []string
	for _, i := range processed {
		if els[i].ok {
			want = append(want, els[i].kind+":"+els[i].mark)
		}
	}
	var got []string
	for _, e := range store.Entries {
		switch p := e.Log.Data.(type) {
		case ledger.NewTransactionLogPayload:
			got = append(got, "tx:"+p.Transaction.Metadata["el"])
		case ledger.RevertedTransactionLogPayload:
			got = append(got, "revert:"+p.RevertedTransactionID.String())
		case ledger.SetMetadataLogPayload:
			got = append(got, "meta:"+p.Metadata["el"])
		case ledger.DeleteMetadataLogPayload:
			got = append(got, "delete:"+strings.TrimPrefix(p.Key, "k"))
		}
	}
	if strings.Join(got, ",") != strings.Join(want, ",") {
		fail(prop+"/real-engine-log", "the log holds %v, the bulk defines %v (executed strictly in order, stopping at the first failure unless asked to continue)", got, want)
		return
	}
	// the result at position i describes what element i did: a transaction-producing element is answered with the
	// transaction its own log entry holds (id included)
	if aborted {
		return
	}
	ei := 0
	for pi, i := range processed {
		if !els[i].ok {
			continue
		}
		entry := store.Entries[ei].Log
		ei++
		var stored *ledger.Transaction
		switch p := entry.Data.(type) {
		case ledger.NewTransactionLogPayload:
			stored = p.Transaction
		case ledger.RevertedTransactionLogPayload:
			stored = p.RevertTransaction
		}
		if stored == nil {
			continue
		}
		var answered struct {
			ID       *big.Int `json:"id"`
			Postings []struct {
				Source      string   `json:"source"`
				Destination string   `json:"destination"`
				Amount      *big.Int `json:"amount"`
				Asset       string   `json:"asset"`
			} `json:"postings"`
		}
		if err := json.Unmarshal(resp.Data[pi].Data, &answered); err != nil || answered.ID == nil {
			fail(prop+"/result-content", "result %d (element %d, %s) carries no transaction: %s", pi, i, els[i].kind, clip(string(resp.Data[pi].Data)))
			return
		}
		same := answered.ID.Cmp(stored.ID) == 0 && len(answered.Postings) == len(stored.Postings)
		for k := 0; same && k < len(stored.Postings); k++ {
			q := stored.Postings[k]
			a := answered.Postings[k]
			same = a.Source == q.Source && a.Destination == q.Destination && a.Asset == q.Asset && a.Amount != nil && a.Amount.Cmp(q.Amount) == 0
		}
		if !same {
			b, _ := json.Marshal(stored)
			fail(prop+"/result-content", "result %d does not describe what element %d (%s) did: it answers %s, the log entry of that element holds %s", pi, i, els[i].kind, clip(string(resp.Data[pi].Data)), b)
			return
		}
	}
}
