package checks

import (
	"encoding/json"
	"fmt"
	"os"
	"strings"
	"testing"

	"github.com/formancehq/ledger/verifharness/evid"
	"pgregory.net/rapid"
)

// tier returns "quick" or "thorough" (from $VERIF_TIER, set by ./check).
func tier() string {
	if os.Getenv("VERIF_TIER") == "thorough" {
		return "thorough"
	}
	return "quick"
}

// runProp runs prop under rapid, flushing the evidence shard whatever happens
// and freezing the counters as soon as a case fails, so that the numbers
// describe the search and not rapid's minimisation of the failure.
func runProp(t *testing.T, c *evid.Collector, prop func(rt *rapid.T)) {
	defer c.Flush()
	rapid.Check(t, func(rt *rapid.T) {
		defer func() {
			r := recover()
			if rt.Failed() || (r != nil && !strings.Contains(fmt.Sprintf("%T", r), "invalidData")) {
				c.Freeze()
			}
			if r != nil {
				panic(r)
			}
		}()
		prop(rt)
	})
}

// violation reports a violated oracle unless its signature is a listed known
// finding, in which case the meeting is counted and the case is left.
// It returns true when the caller should stop judging this case.
func violation(rt *rapid.T, c *evid.Collector, signature string, format string, args ...any) bool {
	if c.IsKnown(signature) {
		return true
	}
	rt.Fatalf("VERIF-VIOLATION property=%s signature=%s\n%s", c.Property, signature, fmt.Sprintf(format, args...))
	return true
}

// harnessError reports a defect of the harness itself (never a violation).
func harnessError(rt *rapid.T, format string, args ...any) {
	rt.Fatalf("HARNESS-ERROR %s", fmt.Sprintf(format, args...))
}

// safely runs f and returns the recovered panic value, if any.
func safely(f func()) (p any) {
	defer func() { p = recover() }()
	f()
	return nil
}

func contains(s, sub string) bool { return strings.Contains(s, sub) }

func mustJSON(v any) string {
	b, err := json.MarshalIndent(v, "", " ")
	if err != nil {
		return fmt.Sprintf("unrenderable: %v", err)
	}
	return string(b)
}
