package checks

import ledger "github.com/formancehq/ledger/internal"

type (
	ledgerTx  = ledger.ExpandedTransaction
	ledgerLog = ledger.ChainedLog
	ledgerAcc = ledger.ExpandedAccount
)
