package checks

// C04 (f): metadata of transactions and accounts as of a point in time.
// A generated history (transactions with past / present / future effective dates, metadata set and
// deleted later on transactions and accounts) is turned into the rows the schema's history triggers
// keep (one metadata revision per insert and per update; a transaction's first revision is dated with
// its effective timestamp, later ones and all account revisions with the date of the log entry).
// The statements ledgerstore builds for point-in-time reads are evaluated over those rows by the mini
// SQL engine (joins, bounds, ORDER BY, LIMIT, DISTINCT ON) and compared with a replay of the history.

import (
	"context"
	"encoding/json"
	"fmt"
	"math/big"
	"sort"
	"strings"
	"time"

	ledger "github.com/formancehq/ledger/internal"
	"github.com/formancehq/ledger/internal/storage/ledgerstore"
	"github.com/formancehq/ledger/verifharness/evid"
	"github.com/formancehq/ledger/verifharness/sqlrec"
	sharedapi "github.com/formancehq/stack/libs/go-libs/api"
	"github.com/formancehq/stack/libs/go-libs/bun/bunpaginate"
	"github.com/formancehq/stack/libs/go-libs/query"
	"pgregory.net/rapid"
)

type c04Event struct {
	at   time.Time
	kind string // tx | tx-set | tx-del | acc-set | acc-del
	tx   int
	acc  string
	key  string
	val  string
	eff  time.Time         // tx only
	meta map[string]string // tx only: metadata at creation
}

func c04CopyMeta(m map[string]string) map[string]string {
	out := map[string]string{}
	for k, v := range m {
		out[k] = v
	}
	return out
}

func c04MetaJSON(m map[string]string) []byte {
	b, _ := json.Marshal(m)
	return b
}

func c04PITMetadata(rt *rapid.T, c *evid.Collector) {
	base := time.Date(2024, 5, 1, 0, 0, 0, 0, time.UTC)
	n := rapid.IntRange(2, 9).Draw(rt, "pmEvents")
	var evs []c04Event
	nTx := 0
	accs := []string{"alice", "bank:eu"}
	// the metadata key the filtered reads ask for: metadata keys are free text (brackets included)
	fk := rapid.SampledFrom([]string{"k", "k", "i[0]", "r]2", "a[b]c]"}).Draw(rt, "pmFilterKey")
	for i := 0; i < n; i++ {
		at := base.Add(time.Duration(i) * time.Hour)
		kind := rapid.SampledFrom([]string{"tx", "tx", "tx-set", "tx-set", "tx-del", "acc-set", "acc-set", "acc-del"}).Draw(rt, "pmKind")
		if strings.HasPrefix(kind, "tx-") && nTx == 0 {
			kind = "tx"
		}
		e := c04Event{at: at, kind: kind}
		switch kind {
		case "tx":
			e.tx = nTx
			nTx++
			e.eff = at.Add(time.Duration(rapid.SampledFrom([]int{0, 0, -30, -3, 3, 30}).Draw(rt, "pmEffOffset")) * time.Hour)
			e.meta = map[string]string{}
			if rapid.Bool().Draw(rt, "pmInitialMeta") {
				e.meta[fk] = rapid.SampledFrom([]string{"v", "w"}).Draw(rt, "pmInitialValue")
			}
		case "tx-set", "tx-del":
			e.tx = rapid.IntRange(0, nTx-1).Draw(rt, "pmTx")
			e.key = rapid.SampledFrom([]string{fk, "j"}).Draw(rt, "pmKey")
			e.val = rapid.SampledFrom([]string{"v", "w", "x"}).Draw(rt, "pmVal")
		default:
			e.acc = rapid.SampledFrom(accs).Draw(rt, "pmAcc")
			e.key = rapid.SampledFrom([]string{fk, "j"}).Draw(rt, "pmKey")
			e.val = rapid.SampledFrom([]string{"v", "w", "x"}).Draw(rt, "pmVal")
		}
		evs = append(evs, e)
	}
	// rows the triggers keep
	eng := &sqlrec.Engine{Tables: map[string]*sqlrec.Table{}, Ledger: "l1"}
	txs := &sqlrec.Table{Columns: []string{"id", "timestamp", "reference", "postings", "metadata"}}
	txMeta := &sqlrec.Table{Columns: []string{"transactions_seq", "revision", "date", "metadata"}}
	accounts := &sqlrec.Table{Columns: []string{"address", "metadata"}}
	accMeta := &sqlrec.Table{Columns: []string{"accounts_seq", "revision", "date", "metadata"}}
	curTx := map[int]map[string]string{}
	txRev := map[int]int{}
	curAcc := map[string]map[string]string{}
	accRev := map[string]int{}
	accSeq := map[string]int64{}
	txEff := map[int]time.Time{}
	touch := func(acc string, at time.Time) {
		if _, ok := curAcc[acc]; ok {
			return
		}
		curAcc[acc] = map[string]string{}
		accSeq[acc] = int64(500 + len(accSeq))
		accRev[acc] = 1
		accounts.Rows = append(accounts.Rows, sqlrec.Row{"seq": accSeq[acc], "address": acc, "insertion_date": at, "metadata": []byte(`{}`)})
		accMeta.Rows = append(accMeta.Rows, sqlrec.Row{"accounts_seq": accSeq[acc], "revision": int64(1), "date": at, "metadata": []byte(`{}`)})
	}
	var desc strings.Builder
	for _, e := range evs {
		h := int(e.at.Sub(base).Hours())
		switch e.kind {
		case "tx":
			curTx[e.tx] = c04CopyMeta(e.meta)
			txRev[e.tx] = 1
			txEff[e.tx] = e.eff
			txs.Rows = append(txs.Rows, sqlrec.Row{"seq": int64(100 + e.tx), "id": fmt.Sprint(e.tx), "timestamp": e.eff, "reference": nil, "postings": []byte(`[{"source":"world","destination":"alice","amount":1,"asset":"USD"}]`), "metadata": c04MetaJSON(e.meta)})
			txMeta.Rows = append(txMeta.Rows, sqlrec.Row{"transactions_seq": int64(100 + e.tx), "revision": int64(1), "date": e.eff, "metadata": c04MetaJSON(e.meta)})
			touch("alice", e.at)
			fmt.Fprintf(&desc, "h%d:tx%d eff%+d %v;", h, e.tx, int(e.eff.Sub(e.at).Hours()), e.meta)
		case "tx-set", "tx-del":
			if e.kind == "tx-set" {
				curTx[e.tx][e.key] = e.val
			} else {
				delete(curTx[e.tx], e.key)
			}
			txRev[e.tx]++
			txMeta.Rows = append(txMeta.Rows, sqlrec.Row{"transactions_seq": int64(100 + e.tx), "revision": int64(txRev[e.tx]), "date": e.at, "metadata": c04MetaJSON(curTx[e.tx])})
			fmt.Fprintf(&desc, "h%d:%s tx%d %s=%s;", h, e.kind, e.tx, e.key, e.val)
		default:
			touch(e.acc, e.at)
			if e.kind == "acc-set" {
				curAcc[e.acc][e.key] = e.val
			} else {
				delete(curAcc[e.acc], e.key)
			}
			accRev[e.acc]++
			accMeta.Rows = append(accMeta.Rows, sqlrec.Row{"accounts_seq": accSeq[e.acc], "revision": int64(accRev[e.acc]), "date": e.at, "metadata": c04MetaJSON(curAcc[e.acc])})
			fmt.Fprintf(&desc, "h%d:%s %s %s=%s;", h, e.kind, e.acc, e.key, e.val)
		}
	}
	// the current metadata columns of the main tables
	for _, r := range txs.Rows {
		var id int
		fmt.Sscan(r["id"].(string), &id)
		r["metadata"] = c04MetaJSON(curTx[id])
	}
	for _, r := range accounts.Rows {
		r["metadata"] = c04MetaJSON(curAcc[r["address"].(string)])
	}
	eng.Tables["transactions"], eng.Tables["transactions_metadata"] = txs, txMeta
	eng.Tables["accounts"], eng.Tables["accounts_metadata"] = accounts, accMeta
	// the instant: strictly between two events, or well after everything (never exactly on an event: the
	// bounds of the statements are not all inclusive in the same way, which is not what is judged here)
	last := base.Add(time.Duration(n) * time.Hour)
	var pit time.Time
	if rapid.IntRange(0, 2).Draw(rt, "pmLate") == 0 {
		pit = last.Add(100 * time.Hour)
	} else {
		pit = base.Add(time.Duration(rapid.IntRange(-31, n+31).Draw(rt, "pmPIT"))*time.Hour + 30*time.Minute)
	}
	// replay
	wantTx := map[int]map[string]string{}
	wantAcc := map[string]map[string]string{}
	for _, e := range evs {
		if e.kind == "tx" {
			// a transaction exists "as of" an instant by its effective date, whenever it was written (a
			// back-dated transaction shows up in the past): its metadata then is what it was created with
			wantTx[e.tx] = c04CopyMeta(e.meta)
		}
		if e.at.After(pit) {
			continue
		}
		switch e.kind {
		case "tx":
			if _, ok := wantAcc["alice"]; !ok {
				wantAcc["alice"] = map[string]string{}
			}
		case "tx-set":
			wantTx[e.tx][e.key] = e.val
		case "tx-del":
			delete(wantTx[e.tx], e.key)
		case "acc-set", "acc-del":
			if _, ok := wantAcc[e.acc]; !ok {
				wantAcc[e.acc] = map[string]string{}
			}
			if e.kind == "acc-set" {
				wantAcc[e.acc][e.key] = e.val
			} else {
				delete(wantAcc[e.acc], e.key)
			}
		}
	}
	// a transaction is listed at an instant when its effective date has come (and its log entry exists)
	visible := map[int]bool{}
	future := false
	for id, eff := range txEff {
		if _, created := wantTx[id]; created && !eff.After(pit) {
			visible[id] = true
		}
		if _, created := wantTx[id]; created && eff.After(pit) {
			future = true
		}
	}
	rec := &sqlrec.Recorder{Answer: eng.Answer}
	db := sqlrec.NewDB(rec)
	defer db.Close()
	store := ledgerstore.NewStoreForVerif(db, "bucket", "l1")
	ctx := context.Background()
	lpit := ledger.Time{Time: pit}
	what := rapid.SampledFrom([]string{"tx", "tx-list", "tx-list-filtered", "account", "account-list", "account-list-filtered"}).Draw(rt, "pmRead")
	pitDesc := fmt.Sprintf("h%+.1f", pit.Sub(base).Hours())
	c.Case("f:"+desc.String()+"|"+pitDesc+"|"+what, future || len(evs) > nTx, []string{"f:pit-metadata", "f:" + what}, func() any {
		return map[string]any{"family": "pit-metadata", "history": desc.String(), "pit": pitDesc, "read": what}
	})
	fail := func(sig, format string, args ...any) {
		if c.IsKnown(sig) {
			return
		}
		rt.Logf("history: %s\npit: %s read: %s\nstatements:\n%s", desc.String(), pitDesc, what, clip(strings.Join(rec.Statements(), "\n")))
		violation(rt, c, sig, format, args...)
	}
	metaString := func(m map[string]string) string { return string(c04MetaJSON(m)) }
	filterMatches := func(m map[string]string) bool { return m[fk] == "v" }
	switch what {
	case "tx":
		if nTx == 0 {
			return
		}
		id := rapid.IntRange(0, nTx-1).Draw(rt, "pmReadTx")
		q := ledgerstore.NewGetTransactionQuery(big.NewInt(int64(id)))
		q.PIT = &lpit
		var got *ledger.ExpandedTransaction
		var err error
		if p := safely(func() { got, err = store.GetTransactionWithVolumes(ctx, q) }); p != nil {
			fail("C04/pit-metadata/panic", "GetTransactionWithVolumes panicked: %v", p)
			return
		}
		if len(eng.Unhandled) > 0 {
			harnessError(rt, "mini engine: %s", clip(eng.Unhandled[0]))
		}
		if !visible[id] {
			if err == nil {
				fail("C04/pit-metadata/tx-visible-too-early", "transaction %d is returned as of %s although it is not effective / not written yet", id, pitDesc)
			}
			return
		}
		if err != nil {
			fail("C04/pit-metadata/tx-missing", "transaction %d is not found as of %s: %v", id, pitDesc, err)
			return
		}
		if metaString(got.Metadata) != metaString(wantTx[id]) {
			fail("C04/pit-metadata/tx", "transaction %d as of %s carries metadata %s, replaying the history up to that instant gives %s", id, pitDesc, metaString(got.Metadata), metaString(wantTx[id]))
		}
	case "tx-list", "tx-list-filtered":
		opts := ledgerstore.NewPaginatedQueryOptions(ledgerstore.PITFilterWithVolumes{PITFilter: ledgerstore.PITFilter{PIT: &lpit}})
		if what == "tx-list-filtered" {
			opts = opts.WithQueryBuilder(query.Match("metadata["+fk+"]", "v"))
		}
		// the client reads the list page by page (sometimes in one page): forward to the end, then back to the start
		pageSize := rapid.SampledFrom([]int{50, 1, 1, 2, 3}).Draw(rt, "pmPageSize")
		opts = opts.WithPageSize(uint64(pageSize))
		render := func(cur *sharedapi.Cursor[ledger.ExpandedTransaction]) []string {
			var out []string
			for _, tx := range cur.Data {
				out = append(out, fmt.Sprintf("%s%s", tx.ID, metaString(tx.Metadata)))
			}
			return out
		}
		fetch := func(q ledgerstore.GetTransactionsQuery) *sharedapi.Cursor[ledger.ExpandedTransaction] {
			cur, err := store.GetTransactions(ctx, q)
			if len(eng.Unhandled) > 0 {
				harnessError(rt, "mini engine: %s", clip(eng.Unhandled[0]))
			}
			if err != nil {
				fail("C04/pit-metadata/tx-list-error", "GetTransactions failed: %v", err)
				return nil
			}
			return cur
		}
		follow := func(tok string) *sharedapi.Cursor[ledger.ExpandedTransaction] {
			var q ledgerstore.GetTransactionsQuery
			if err := bunpaginate.UnmarshalCursor(tok, &q); err != nil {
				fail("C04/pit-metadata/tx-list-error", "the list's own page token is not accepted: %v", err)
				return nil
			}
			return fetch(q)
		}
		cur := fetch(ledgerstore.NewGetTransactionsQuery(opts))
		if cur == nil {
			return
		}
		var want, gotIDs []string
		for id := nTx - 1; id >= 0; id-- {
			if visible[id] && (what == "tx-list" || filterMatches(wantTx[id])) {
				want = append(want, fmt.Sprintf("%d%s", id, metaString(wantTx[id])))
			}
		}
		pages := [][]string{render(cur)}
		gotIDs = append(gotIDs, pages[0]...)
		last := cur
		for last.HasMore && last.Next != "" && len(pages) < 20 {
			nx := follow(last.Next)
			if nx == nil {
				return
			}
			pages = append(pages, render(nx))
			gotIDs = append(gotIDs, pages[len(pages)-1]...)
			last = nx
		}
		if strings.Join(gotIDs, " ") != strings.Join(want, " ") {
			fail("C04/pit-metadata/tx-list", "transactions listed as of %s (%s, %d per page): %v\nreplaying the history up to that instant gives: %v", pitDesc, what, pageSize, gotIDs, want)
			return
		}
		// on the way back every page shows what it showed on the way out
		for i := len(pages) - 1; i > 0; i-- {
			if last.Previous == "" {
				fail("C04/pit-metadata/tx-list-back", "page %d of the list as of %s has no way back", i, pitDesc)
				return
			}
			pv := follow(last.Previous)
			if pv == nil {
				return
			}
			if got := render(pv); strings.Join(got, " ") != strings.Join(pages[i-1], " ") {
				fail("C04/pit-metadata/tx-list-back", "page %d of the list as of %s (%d per page) shows %v when reached from the page after it, it showed %v on the way out (the history defines one list)", i-1, pitDesc, pageSize, got, pages[i-1])
				return
			}
			last = pv
		}
	case "account":
		acc := rapid.SampledFrom(accs).Draw(rt, "pmReadAcc")
		q := ledgerstore.NewGetAccountQuery(acc)
		q.PIT = &lpit
		got, err := store.GetAccountWithVolumes(ctx, q)
		if len(eng.Unhandled) > 0 {
			harnessError(rt, "mini engine: %s", clip(eng.Unhandled[0]))
		}
		w, exists := wantAcc[acc]
		if !exists {
			return // an account nobody has used yet: what is answered for it is not a metadata question
		}
		if err != nil {
			fail("C04/pit-metadata/account-missing", "account %s is not found as of %s: %v", acc, pitDesc, err)
			return
		}
		if metaString(got.Metadata) != metaString(w) {
			fail("C04/pit-metadata/account", "account %s as of %s carries metadata %s, replaying the history up to that instant gives %s", acc, pitDesc, metaString(got.Metadata), metaString(w))
		}
	default:
		opts := ledgerstore.NewPaginatedQueryOptions(ledgerstore.PITFilterWithVolumes{PITFilter: ledgerstore.PITFilter{PIT: &lpit}}).WithPageSize(50)
		if what == "account-list-filtered" {
			opts = opts.WithQueryBuilder(query.Match("metadata["+fk+"]", "v"))
		}
		cur, err := store.GetAccountsWithVolumes(ctx, ledgerstore.NewGetAccountsQuery(opts))
		if len(eng.Unhandled) > 0 {
			harnessError(rt, "mini engine: %s", clip(eng.Unhandled[0]))
		}
		if err != nil {
			fail("C04/pit-metadata/account-list-error", "GetAccountsWithVolumes failed: %v", err)
			return
		}
		var want, got []string
		for a, m := range wantAcc {
			if what == "account-list" || filterMatches(m) {
				want = append(want, a+metaString(m))
			}
		}
		sort.Strings(want)
		for _, a := range cur.Data {
			got = append(got, a.Address+metaString(a.Metadata))
		}
		if strings.Join(got, " ") != strings.Join(want, " ") {
			fail("C04/pit-metadata/account-list", "accounts listed as of %s (%s): %v\nreplaying the history up to that instant gives: %v", pitDesc, what, got, want)
		}
	}
}
