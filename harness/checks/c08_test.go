package checks

// C08 Compiled programs do what the source says: differential against the
// reference interpreter of harness/numgen, must-reject variants, and the
// compilation cache under sizes / eviction / concurrency.

import (
	"fmt"
	"math/big"
	"reflect"
	"strings"
	"sync"
	"testing"

	"github.com/formancehq/ledger/internal/engine/command"
	"github.com/formancehq/ledger/internal/machine/script/compiler"
	"github.com/formancehq/ledger/verifharness/evid"
	"github.com/formancehq/ledger/verifharness/numgen"
	"pgregory.net/rapid"
)

// c08LookAlikes doubles one blank inside a string literal and inside a multi-word keyword of text.
func c08LookAlikes(text string) []string {
	var out []string
	// inside a string literal: find a blank between two quotes on one line
	inString := false
	for i := 0; i < len(text); i++ {
		switch text[i] {
		case '"':
			inString = !inString
		case '\n':
			inString = false
		case ' ':
			if inString {
				out = append(out, text[:i]+" "+text[i:])
				i = len(text)
			}
		}
	}
	for _, kw := range []string{"allowing overdraft up to", "allowing unbounded overdraft"} {
		if i := strings.Index(text, kw); i >= 0 {
			out = append(out, text[:i]+strings.Replace(kw, " ", "  ", 1)+text[i+len(kw):])
		}
	}
	return out
}

// compareWithModel returns "" when implementation and reference agree.
func compareWithModel(c *numgen.Case, ref *numgen.Result, impl implResult) (sig, msg string) {
	if impl.Class == "panic" {
		return "C08/panic/" + impl.PanicStage, fmt.Sprintf("the implementation panicked (%v); the source defines: %s %s", impl.Panic, ref.Class, ref.Reason)
	}
	if impl.Class == "compile-reject" {
		return "C08/accepted-program-refused", fmt.Sprintf("a well-formed program was refused by the compiler: %v", firstLine(fmt.Sprint(impl.Err)))
	}
	if ref.KeptReserve && impl.Class == numgen.Insufficient && ref.Class != numgen.Insufficient {
		return "C08/dest-inorder/kept-reserve-overconsumed", fmt.Sprintf("the source defines %s but the run failed with insufficient funds after an ordered destination consumed its kept reserve", ref.Class)
	}
	if ref.Class != numgen.OK {
		if impl.Class == numgen.OK {
			return "C08/should-fail/" + ref.Class, fmt.Sprintf("the source defines a failure (%s: %s) but the run succeeded with %s", ref.Class, ref.Reason, numgen.PostingsString(impl.Postings))
		}
		if ref.AnyErrorOK || impl.Class == ref.Class {
			return "", ""
		}
		return "C08/error-class/" + ref.Class + "-vs-" + impl.Class, fmt.Sprintf("the source defines %s (%s), the run reported %s: %v", ref.Class, ref.Reason, impl.Class, firstLine(fmt.Sprint(impl.Err)))
	}
	if impl.Class != numgen.OK {
		sig := "C08/should-succeed/" + impl.Class
		if ref.KeptReserve && impl.Class == numgen.Insufficient {
			sig = "C08/dest-inorder/kept-reserve-overconsumed"
		}
		return sig, fmt.Sprintf("the source defines postings [%s] but the run failed: %s %v", numgen.PostingsString(numgen.Normalise(ref.Postings())), impl.Class, firstLine(fmt.Sprint(impl.Err)))
	}
	want, got := numgen.Normalise(ref.Postings()), numgen.Normalise(impl.Postings)
	if !samePostingList(want, got) {
		return "C08/postings", fmt.Sprintf("postings differ\n  source defines: %s\n  run produced:   %s", numgen.PostingsString(want), numgen.PostingsString(got))
	}
	if !sameStringMap(ref.TxMeta, impl.TxMeta) {
		return "C08/tx-metadata", fmt.Sprintf("transaction metadata differ\n  source defines: %v\n  run produced:   %v", ref.TxMeta, impl.TxMeta)
	}
	if len(ref.AccountMeta) != len(impl.AccountMeta) {
		return "C08/account-metadata", fmt.Sprintf("account metadata differ\n  source defines: %v\n  run produced:   %v", ref.AccountMeta, impl.AccountMeta)
	}
	for a, m := range ref.AccountMeta {
		if !sameStringMap(m, impl.AccountMeta[a]) {
			return "C08/account-metadata", fmt.Sprintf("account metadata of %s differ\n  source defines: %v\n  run produced:   %v", a, m, impl.AccountMeta[a])
		}
	}
	// final balances of every (account, asset) the machine tracks
	for acc, mm := range impl.Balances {
		if acc == "world" {
			continue
		}
		for as, b := range mm {
			w := new(big.Int)
			if ref.Balances[acc] != nil && ref.Balances[acc][as] != nil {
				w = ref.Balances[acc][as]
			} else {
				w = c.Env.Balance(acc, as)
			}
			if w.Cmp(b) != 0 {
				return "C08/final-balance", fmt.Sprintf("machine balance of %s/%s after the run is %v, the source defines %v", acc, as, b, w)
			}
		}
	}
	return "", ""
}

// mustReject applies one static-rule violation to a valid program; returns
// nil when the mutation does not apply.
func mustReject(t *rapid.T, c *numgen.Case) (*numgen.Program, string) {
	p := &numgen.Program{Vars: append([]numgen.VarDecl(nil), c.Prog.Vars...), Stmts: append([]numgen.Stmt(nil), c.Prog.Stmts...)}
	var sendIdx []int
	for i, s := range p.Stmts {
		if _, ok := s.(numgen.Send); ok {
			sendIdx = append(sendIdx, i)
		}
	}
	if len(sendIdx) == 0 {
		return nil, ""
	}
	si := sendIdx[rapid.IntRange(0, len(sendIdx)-1).Draw(t, "mutSend")]
	s := p.Stmts[si].(numgen.Send)
	usd := numgen.LitAsset{Name: "USD"}
	ten := numgen.LitMonetary{Asset: usd, Amount: big.NewInt(10)}
	kind := rapid.SampledFrom([]string{"undeclared-var", "duplicate-var", "number-as-source", "asset-as-amount", "string-as-dest", "portions-over", "portions-under", "two-remaining", "remaining-with-100", "unbounded-not-last", "all-from-allotment", "all-from-world", "overdraft-on-world", "same-source-twice", "number-as-max", "monetary-plus-number", "account-as-overdraft", "meta-on-nonaccount", "balance-nonmonetary"}).Draw(t, "rejectKind")
	switch kind {
	case "undeclared-var":
		s.Dest = numgen.DestAccount{Acc: numgen.VarRef{Name: "nowhere"}}
	case "duplicate-var":
		p.Vars = append(p.Vars, numgen.VarDecl{Type: numgen.TAccount, Name: "dupe"}, numgen.VarDecl{Type: numgen.TAsset, Name: "dupe"})
	case "number-as-source":
		s.Src = numgen.SrcAccount{Acc: numgen.LitNumber{V: big.NewInt(5)}}
	case "asset-as-amount":
		s.Amount, s.AllAsset = usd, nil
	case "string-as-dest":
		s.Dest = numgen.DestAccount{Acc: numgen.LitString{S: "x"}}
	case "portions-over":
		s.Dest = numgen.DestAllotment{Portions: []numgen.Portion{{Kind: numgen.PConst, Text: "60%"}, {Kind: numgen.PConst, Text: "50%"}}, KDs: []numgen.KeptOrDest{{Dest: numgen.DestAccount{Acc: numgen.LitAccount{Name: "x"}}}, {Kept: true}}}
	case "portions-under":
		s.Dest = numgen.DestAllotment{Portions: []numgen.Portion{{Kind: numgen.PConst, Text: "1/3"}, {Kind: numgen.PConst, Text: "1/3"}}, KDs: []numgen.KeptOrDest{{Dest: numgen.DestAccount{Acc: numgen.LitAccount{Name: "x"}}}, {Kept: true}}}
	case "two-remaining":
		s.Dest = numgen.DestAllotment{Portions: []numgen.Portion{{Kind: numgen.PRemaining}, {Kind: numgen.PRemaining}}, KDs: []numgen.KeptOrDest{{Dest: numgen.DestAccount{Acc: numgen.LitAccount{Name: "x"}}}, {Kept: true}}}
	case "remaining-with-100":
		s.Dest = numgen.DestAllotment{Portions: []numgen.Portion{{Kind: numgen.PConst, Text: "100%"}, {Kind: numgen.PRemaining}}, KDs: []numgen.KeptOrDest{{Dest: numgen.DestAccount{Acc: numgen.LitAccount{Name: "x"}}}, {Kept: true}}}
	case "unbounded-not-last":
		s.Amount, s.AllAsset = ten, nil
		s.Src = numgen.SrcInOrder{Srcs: []numgen.Source{numgen.SrcAccount{Acc: numgen.LitAccount{Name: "world"}}, numgen.SrcAccount{Acc: numgen.LitAccount{Name: "a"}}}}
	case "all-from-allotment":
		s.Amount, s.AllAsset = nil, usd
		s.Src = numgen.SrcAllotment{Portions: []numgen.Portion{{Kind: numgen.PConst, Text: "1/2"}, {Kind: numgen.PConst, Text: "1/2"}}, Srcs: []numgen.Source{numgen.SrcAccount{Acc: numgen.LitAccount{Name: "a"}}, numgen.SrcAccount{Acc: numgen.LitAccount{Name: "b"}}}}
	case "all-from-world":
		s.Amount, s.AllAsset = nil, usd
		s.Src = numgen.SrcAccount{Acc: numgen.LitAccount{Name: "world"}}
	case "overdraft-on-world":
		s.Amount, s.AllAsset = ten, nil
		s.Src = numgen.SrcAccount{Acc: numgen.LitAccount{Name: "world"}, Overdraft: &numgen.Overdraft{Unbounded: true}}
	case "same-source-twice":
		s.Amount, s.AllAsset = ten, nil
		s.Src = numgen.SrcInOrder{Srcs: []numgen.Source{numgen.SrcAccount{Acc: numgen.LitAccount{Name: "a"}}, numgen.SrcAccount{Acc: numgen.LitAccount{Name: "b"}}, numgen.SrcAccount{Acc: numgen.LitAccount{Name: "a"}}}}
	case "number-as-max":
		s.Amount, s.AllAsset = ten, nil
		s.Src = numgen.SrcMax{Max: numgen.LitNumber{V: big.NewInt(3)}, Src: numgen.SrcAccount{Acc: numgen.LitAccount{Name: "a"}}}
	case "monetary-plus-number":
		s.Amount, s.AllAsset = numgen.BinOp{Op: '+', L: ten, R: numgen.LitNumber{V: big.NewInt(1)}}, nil
	case "account-as-overdraft":
		s.Amount, s.AllAsset = ten, nil
		s.Src = numgen.SrcAccount{Acc: numgen.LitAccount{Name: "a"}, Overdraft: &numgen.Overdraft{Amount: numgen.LitAccount{Name: "b"}}}
	case "meta-on-nonaccount":
		p.Vars = append(p.Vars, numgen.VarDecl{Type: numgen.TString, Name: "badmeta", Origin: numgen.MetaOrigin{Acc: usd, Key: "k"}})
	case "balance-nonmonetary":
		p.Vars = append(p.Vars, numgen.VarDecl{Type: numgen.TNumber, Name: "badbal", Origin: numgen.BalanceOrigin{Acc: numgen.LitAccount{Name: "a"}, Asset: usd}})
	}
	p.Stmts[si] = s
	return p, kind
}

func TestC08(t *testing.T) {
	c := evid.New("C08")
	c.Rule = "typed generator over the whole grammar (all source/destination shapes nested to depth 3, caps, portions n/d / x.y% / variable / remaining, kept, overdrafts, send-all, meta() and balance() variables, big-integer arithmetic, save / set_tx_meta / set_account_meta, layout variants) x generated bindings, balance tables (0, negative, >2^64) and metadata; differential against the harness's reference interpreter on normalised postings, metadata, final machine balances and error class; plus one must-reject variant per case (19 static rules) and cache runs (sizes 1,2,3,1024, eviction, 8 concurrent users of one cached program). Non-trivial = >=2 statements with a nested source or destination, or a variable with an origin, or big-integer arithmetic; distinct by script text + environment."
	c.Assumptions = []string{
		"the reference interpreter (harness/numgen/sem.go) is the statement of what the source means; disagreements were triaged by hand against the pinned examples of internal/machine/vm/*_test.go",
		"postings are compared after dropping zero-amount postings and merging adjacent postings with identical endpoints",
	}
	cfg := numgen.GenCfg{MaxDepth: 3, MaxStmts: 4}
	if tier() == "thorough" {
		cfg.MaxDepth = 4
	}
	cfg.AvoidKeptReserve = c.HasKnown("C08/dest-inorder/kept-reserve-overconsumed")
	// (one overdraft bound in ten is written in another asset than the send's: the source contradicts itself and must be refused)
	runProp(t, c, func(rt *rapid.T) {
		cs := numgen.GenTyped(rt, cfg)
		for i := 0; i < cs.Excluded; i++ {
			c.Excluded("C08/dest-inorder/kept-reserve-overconsumed")
		}
		ref := numgen.Run(cs.Prog, cs.Env)
		impl := runImpl(cs.Text, cs.Env, nil)
		labels := append([]string{"ref:" + ref.Class, "impl:" + impl.Class}, cs.Labels...)
		nontrivial := false
		for _, l := range cs.Labels {
			switch {
			case len(cs.Prog.Stmts) >= 2 && (contains(l, "@1") || contains(l, "@2") || contains(l, "src:max") || contains(l, "src:allotment")):
				nontrivial = true
			case l == "var:meta()" || l == "amount:balance()" || l == "monetary-arith" || l == "number-arith":
				nontrivial = true
			}
		}
		c.Case(cs.Text+"#"+numgen.EnvString(cs.Env), nontrivial, labels, func() any {
			s := caseSample(cs)
			s["reference"] = ref.Class + ": " + numgen.PostingsString(numgen.Normalise(ref.Postings()))
			s["implementation"] = describeImpl(impl)
			return s
		})
		if sig, msg := compareWithModel(cs, ref, impl); sig != "" {
			if !c.IsKnown(sig) {
				rt.Logf("script:\n%s\nenv: %s", cs.Text, numgen.EnvString(cs.Env))
				violation(rt, c, sig, "%s", msg)
			}
			return
		}
		// statement prefixes: earlier statements are unaffected by later ones
		if ref.Class == numgen.OK && len(cs.Prog.Stmts) > 1 {
			k := rapid.IntRange(1, len(cs.Prog.Stmts)-1).Draw(rt, "prefixLen")
			pp := truncated(cs.Prog, k)
			pref := numgen.Run(pp, cs.Env)
			pimpl := runImpl(numgen.Render(pp, cs.Layout), cs.Env, nil)
			if pref.Class == numgen.OK && pimpl.Class == numgen.OK {
				full, part := numgen.Normalise(impl.Postings), numgen.Normalise(pimpl.Postings)
				_ = full
				if sig, msg := compareWithModel(&numgen.Case{Prog: pp, Env: cs.Env}, pref, pimpl); sig != "" && !c.IsKnown(sig) {
					rt.Logf("prefix script:\n%s\nenv: %s", numgen.Render(pp, cs.Layout), numgen.EnvString(cs.Env))
					violation(rt, c, sig, "on the first %d statement(s): %s (%v)", k, msg, part)
					return
				}
			}
		}
		// a program the language rejects is refused rather than run
		if bad, kind := mustReject(rt, cs); bad != nil {
			text := numgen.Render(bad, cs.Layout)
			var err error
			p := safely(func() { _, err = compiler.Compile(text) })
			c.Label("must-reject:" + kind)
			if p != nil {
				if !c.IsKnown("C08/reject-panic/" + kind) {
					rt.Logf("script:\n%s", text)
					violation(rt, c, "C08/reject-panic/"+kind, "compiling an ill-formed program (%s) panicked: %v", kind, p)
				}
				return
			}
			if err == nil {
				if !c.IsKnown("C08/ill-formed-accepted/" + kind) {
					rt.Logf("script:\n%s", text)
					violation(rt, c, "C08/ill-formed-accepted/"+kind, "an ill-formed program (%s) was compiled instead of refused", kind)
				}
				return
			}
		}
		// a character that belongs to no token makes the text ill-formed, wherever it stands
		if rapid.IntRange(0, 4).Draw(rt, "foreignChar") == 0 && !cs.Layout.Comments {
			var spots []int
			for i := 1; i <= len(cs.Text); i++ {
				ch := cs.Text[i-1]
				if (ch >= 'a' && ch <= 'z') || (ch >= 'A' && ch <= 'Z') || (ch >= '0' && ch <= '9') || ch == ']' || ch == ')' || ch == '}' || ch == ' ' {
					if strings.Count(cs.Text[:i], `"`)%2 == 0 {
						spots = append(spots, i)
					}
				}
			}
			if len(spots) > 0 {
				at := rapid.SampledFrom(spots).Draw(rt, "foreignAt")
				chr := rapid.SampledFrom([]string{"é", "€", "!", ";", "#", "^", "~", "`", "\\", "?", "&", "|", "'", "<", "\x01"}).Draw(rt, "foreignChr")
				text := cs.Text[:at] + chr + cs.Text[at:]
				c.Label("must-reject:foreign-character")
				var err error
				p := safely(func() { _, err = compiler.Compile(text) })
				if p != nil {
					if !c.IsKnown("C08/reject-panic/foreign-character") {
						rt.Logf("script:\n%s", text)
						violation(rt, c, "C08/reject-panic/foreign-character", "compiling a text with a character that belongs to no token (%q at %d) panicked: %v", chr, at, p)
					}
					return
				}
				if err == nil {
					if !c.IsKnown("C08/ill-formed-accepted/foreign-character") {
						rt.Logf("script:\n%s", text)
						violation(rt, c, "C08/ill-formed-accepted/foreign-character", "a text with a character that belongs to no token (%q at offset %d) was compiled instead of refused", chr, at)
					}
					return
				}
			}
		}
		// a binding that is not a decimal amount is refused rather than read in another base
		if rapid.IntRange(0, 3).Draw(rt, "badBinding") == 0 && impl.Class == numgen.OK {
			for _, v := range cs.Prog.Vars {
				val, bound := cs.Env.Vars[v.Name]
				if !bound || v.Origin != nil || (v.Type != numgen.TNumber && v.Type != numgen.TMonetary) {
					continue
				}
				form := rapid.SampledFrom([]string{"0x10", "0b11", "0o17", "1_000", "0X1f", "1e3"}).Draw(rt, "badAmountForm")
				env2 := &numgen.Env{Vars: map[string]string{}, Balances: cs.Env.Balances, Meta: cs.Env.Meta, ReqMeta: cs.Env.ReqMeta}
				for k, x := range cs.Env.Vars {
					env2.Vars[k] = x
				}
				if i := strings.LastIndex(val, " "); v.Type == numgen.TMonetary && i >= 0 {
					env2.Vars[v.Name] = val[:i+1] + form
				} else {
					env2.Vars[v.Name] = form
				}
				c.Label("must-reject:binding-not-decimal")
				got := runImpl(cs.Text, env2, nil)
				if got.Class == numgen.OK || got.Class == numgen.Insufficient {
					if !c.IsKnown("C08/ill-formed-accepted/binding-not-decimal") {
						rt.Logf("script:\n%s\nenv: %s", cs.Text, numgen.EnvString(env2))
						violation(rt, c, "C08/ill-formed-accepted/binding-not-decimal", "variable %s bound to %q was accepted (outcome %s) instead of refused as not an amount", v.Name, env2.Vars[v.Name], got.Class)
					}
					return
				}
				break
			}
		}
		// the compilation cache: same behaviour under any size, eviction history and concurrency
		if rapid.IntRange(0, 3).Draw(rt, "cacheRun") == 0 {
			size := rapid.SampledFrom([]int{1, 2, 3, 1024}).Draw(rt, "cacheSize")
			cc := command.NewCompiler(size)
			others := []string{
				"send [USD 1] (\n source = @world\n destination = @o1\n)",
				"send [USD 2] (\n source = @world\n destination = @o2\n)",
				"send [USD 3] (\n source = @world\n destination = @o3\n)",
				cs.Text + "\n",
			}
			seq := rapid.SliceOfN(rapid.IntRange(0, 4), 2, 8).Draw(rt, "cacheSeq")
			c.Label(fmt.Sprintf("cache:size%d", size))
			for _, which := range seq {
				text := cs.Text
				if which < 4 {
					text = others[which]
				}
				viaCache := runImpl(text, cs.Env, cc.Compile)
				if text == cs.Text {
					if d := diffImpl(impl, viaCache); d != "" {
						if !c.IsKnown("C08/cache") {
							rt.Logf("script:\n%s\nenv: %s", cs.Text, numgen.EnvString(cs.Env))
							violation(rt, c, "C08/cache", "the program behaves differently when served by the compilation cache (size %d, sequence %v): %s", size, seq, d)
						}
						return
					}
				}
			}
			// the cached program is shared by every client of the same text: running it with other
			// bindings first must not change what this client gets, and vice versa
			env2 := numgen.Rebind(rt, cs)
			fresh2 := runImpl(cs.Text, env2, nil)
			cached2 := runImpl(cs.Text, env2, cc.Compile)
			if d := diffImpl(fresh2, cached2); d != "" {
				if !c.IsKnown("C08/cache-other-bindings") {
					rt.Logf("script:\n%s\nfirst env: %s\nsecond env: %s", cs.Text, numgen.EnvString(cs.Env), numgen.EnvString(env2))
					violation(rt, c, "C08/cache-other-bindings", "after the cached program served one set of bindings, the same text with other bindings behaves differently from a fresh compilation: %s", d)
				}
				return
			}
			if d := diffImpl(impl, runImpl(cs.Text, cs.Env, cc.Compile)); d != "" {
				if !c.IsKnown("C08/cache-other-bindings") {
					rt.Logf("script:\n%s\nfirst env: %s\nsecond env: %s", cs.Text, numgen.EnvString(cs.Env), numgen.EnvString(env2))
					violation(rt, c, "C08/cache-other-bindings", "after the cached program served other bindings, the original bindings behave differently: %s", d)
				}
				return
			}
			// look-alikes: texts that differ from this one only by the length of a run of blanks inside a token
			// (a string literal, a multi-word keyword) are other programs -- or no programs at all -- and the
			// cache, warm with this text, must treat them as such
			for _, la := range c08LookAlikes(cs.Text) {
				freshLA := runImpl(la, cs.Env, nil)
				cachedLA := runImpl(la, cs.Env, cc.Compile)
				c.Label("cache:look-alike")
				if d := diffImpl(freshLA, cachedLA); d != "" {
					if !c.IsKnown("C08/cache-look-alike") {
						rt.Logf("cached text:\n%s\nlook-alike:\n%s\nenv: %s", cs.Text, la, numgen.EnvString(cs.Env))
						violation(rt, c, "C08/cache-look-alike", "a text that differs from a cached one only by blanks inside a token is served the cached program: %s", d)
					}
					return
				}
			}
			// two compilations of the same text are the same program
			p1, e1 := compiler.Compile(cs.Text)
			p2, e2 := compiler.Compile(cs.Text)
			if (e1 == nil) != (e2 == nil) || (e1 == nil && !reflect.DeepEqual(p1, p2)) {
				if !c.IsKnown("C08/recompile") {
					violation(rt, c, "C08/recompile", "compiling the same text twice gives different programs")
				}
				return
			}
			// concurrent use of one cached program
			// ... and concurrent users of the cache with other texts: each must get its own program
			var wg sync.WaitGroup
			diffs := make([]string, 8)
			freshOthers := make([]implResult, 3)
			for i := range freshOthers {
				freshOthers[i] = runImpl(others[i], cs.Env, nil)
			}
			for i := 0; i < 8; i++ {
				wg.Add(1)
				go func(i int) {
					defer wg.Done()
					for rep := 0; rep < 4; rep++ {
						if i%2 == 0 {
							if d := diffImpl(impl, runImpl(cs.Text, cs.Env, cc.Compile)); d != "" {
								diffs[i] = d
							}
						} else if d := diffImpl(freshOthers[i%3], runImpl(others[i%3], cs.Env, cc.Compile)); d != "" {
							diffs[i] = "other script: " + d
						}
					}
				}(i)
			}
			wg.Wait()
			for _, d := range diffs {
				if d != "" {
					if !c.IsKnown("C08/cache-concurrent") {
						rt.Logf("script:\n%s\nenv: %s", cs.Text, numgen.EnvString(cs.Env))
						violation(rt, c, "C08/cache-concurrent", "concurrent executions of one cached program disagree with a fresh compilation: %s", d)
					}
					return
				}
			}
		}
	})
}

func diffImpl(a, b implResult) string {
	if a.Class != b.Class {
		return fmt.Sprintf("outcome %s vs %s", describeImpl(a), describeImpl(b))
	}
	if !samePostingList(a.Postings, b.Postings) {
		return fmt.Sprintf("postings [%s] vs [%s]", numgen.PostingsString(a.Postings), numgen.PostingsString(b.Postings))
	}
	if !sameStringMap(a.TxMeta, b.TxMeta) {
		return fmt.Sprintf("metadata %v vs %v", a.TxMeta, b.TxMeta)
	}
	return ""
}
