package checks

// C17 Following cursors enumerates each item exactly once. Three layers over
// the same mini result engine (harness/sqlrec): L1 bunpaginate on a harness
// table, L2 ledgerstore list methods, L3 the v1/v2 HTTP list handlers.

import (
	"context"
	"database/sql/driver"
	"encoding/json"
	"fmt"
	"math/big"
	"net/url"
	"sort"
	"strings"
	"testing"
	"time"

	"github.com/formancehq/ledger/internal/api/backend"
	"github.com/formancehq/ledger/internal/storage/ledgerstore"
	"github.com/formancehq/ledger/verifharness/evid"
	"github.com/formancehq/ledger/verifharness/httpsim"
	"github.com/formancehq/ledger/verifharness/sqlrec"
	sharedapi "github.com/formancehq/stack/libs/go-libs/api"
	"github.com/formancehq/stack/libs/go-libs/bun/bunpaginate"
	"github.com/formancehq/stack/libs/go-libs/query"
	"github.com/uptrace/bun"
	"pgregory.net/rapid"
)

type c17Page struct {
	IDs      []string
	HasMore  bool
	Next     string
	Previous string
	Err      string
}

type c17Walker struct {
	First  func() c17Page
	Follow func(token string) c17Page
}

type c17Item struct {
	bun.BaseModel `bun:"items,alias:items"`

	ID   *bunpaginate.BigInt `bun:"id,type:numeric"`
	Name string              `bun:"name"`
}

type c17Collection struct {
	ids      []*big.Int // ascending
	refs     map[string]string
	meta     map[string]string
	engine   *sqlrec.Engine
	rec      *sqlrec.Recorder
	db       *bun.DB
	store    *ledgerstore.Store
	pageSize int // 0 = absent
}

func pageOf[T any](c *sharedapi.Cursor[T], err error, id func(T) string) c17Page {
	if err != nil {
		return c17Page{Err: err.Error()}
	}
	p := c17Page{HasMore: c.HasMore, Next: c.Next, Previous: c.Previous}
	for _, d := range c.Data {
		p.IDs = append(p.IDs, id(d))
	}
	return p
}

func c17HTTPPage(code int, body []byte, idField string) c17Page {
	if code >= 400 {
		return c17Page{Err: fmt.Sprintf("status %d: %s", code, clip(string(body)))}
	}
	var resp struct {
		Cursor struct {
			HasMore  bool             `json:"hasMore"`
			Next     string           `json:"next"`
			Previous string           `json:"previous"`
			Data     []map[string]any `json:"data"`
		} `json:"cursor"`
	}
	dec := json.NewDecoder(strings.NewReader(string(body)))
	dec.UseNumber()
	if err := dec.Decode(&resp); err != nil {
		return c17Page{Err: "response does not decode: " + err.Error()}
	}
	p := c17Page{HasMore: resp.Cursor.HasMore, Next: resp.Cursor.Next, Previous: resp.Cursor.Previous}
	for _, d := range resp.Cursor.Data {
		p.IDs = append(p.IDs, fmt.Sprint(d[idField]))
	}
	return p
}

func TestC17(t *testing.T) {
	c := evid.New("C17")
	c.Rule = "collections of 0-40 items, one in twelve of 101-230 items with page sizes {100,101,150,n-1,n,1000} (ids a random increasing sequence with gaps, some beyond 64 bits) x page size {1,2,3,n-1,n,n+1,100,absent} x order x optional filter (reference / one-key metadata / $not / $and with a nested $not / $or / $or of 20-90 alternatives / a generated tree of $and, $or and $not nested to depth 3 over three metadata atoms, evaluated row by row by the model), walked through three layers: L1 bunpaginate.UsingColumn / UsingOffset on a harness table, L2 ledgerstore.GetTransactions / GetLogs / GetAccountsWithVolumes, L3 the v2 and v1 HTTP list handlers with ?cursor=. Rows are served by the harness's mini SQL engine. Oracle: following next from the first page yields the filtered collection once, in order, every page but the last full, termination; previous of page i is page i-1 and the first page has none; every statement of the walk carries the filter of the first request (the token stands for the same query). Non-trivial = a walk of >=3 pages, or with a filter, or with a backward step; distinct by (layer, list, sizes, filter, ids). Page sizes left to the server are written as an absent parameter or as an explicit pageSize=0."
	c.Assumptions = []string{"PostgreSQL is replaced by a mini engine that evaluates WHERE conjuncts / ORDER BY / LIMIT / OFFSET of the narrow statement shapes bun emits here; unknown shapes abort the case as a harness error", "static collection (no concurrent inserts)"}
	runProp(t, c, func(rt *rapid.T) {
		if rapid.IntRange(0, 7).Draw(rt, "tokenFamily") == 0 {
			c17TokenRoundTrip(rt, c)
			return
		}
		n := rapid.IntRange(0, 40).Draw(rt, "n")
		large := rapid.IntRange(0, 11).Draw(rt, "large") == 0
		if large {
			// collections longer than the library's default maximum page (100): the v1 API allows pages up to 1000
			n = rapid.IntRange(101, 230).Draw(rt, "nLarge")
		}
		ids := make([]*big.Int, n)
		cur := big.NewInt(int64(rapid.IntRange(0, 3).Draw(rt, "start")))
		if rapid.IntRange(0, 5).Draw(rt, "huge") == 0 {
			cur = new(big.Int).Lsh(big.NewInt(1), 64)
		}
		for i := range ids {
			ids[i] = new(big.Int).Set(cur)
			cur = new(big.Int).Add(cur, big.NewInt(int64(rapid.IntRange(1, 3).Draw(rt, "gap"))))
		}
		layer := rapid.SampledFrom([]string{"L1-column", "L1-offset", "L2-transactions", "L2-logs", "L2-accounts", "L3-v2-transactions", "L3-v2-logs", "L3-v2-accounts", "L3-v1-transactions", "L3-v1-accounts"}).Draw(rt, "layer")
		if strings.Contains(layer, "logs") || strings.Contains(layer, "transactions") && strings.HasPrefix(layer, "L3") {
			// ids of logs / transactions are decoded as JSON numbers by clients: keep them printable either way
		}
		pageSize := rapid.SampledFrom([]int{1, 2, 3, max(1, n-1), max(1, n), n + 1, 100, 0}).Draw(rt, "pageSize")
		if large {
			pageSize = rapid.SampledFrom([]int{100, 101, 150, n - 1, n, 1000}).Draw(rt, "largePageSize")
		} else if pageSize > 100 {
			pageSize = 100
		}
		effPage := pageSize
		if strings.HasPrefix(layer, "L3-v2") && effPage > 100 {
			effPage = 100 // the v2 API caps the page size at 100
		}
		if strings.HasPrefix(layer, "L3-v1") && effPage > 1000 {
			effPage = 1000
		}
		if effPage == 0 {
			effPage = 15
		}
		filter := ""
		if !strings.HasPrefix(layer, "L1") && !strings.Contains(layer, "logs") {
			filter = rapid.SampledFrom([]string{"", "", "reference", "metadata", "not", "and-not", "or", "or-many", "or-many", "tree", "tree"}).Draw(rt, "filter")
			if strings.Contains(layer, "accounts") && filter == "reference" {
				filter = "metadata"
			}
			if strings.Contains(layer, "-v1-") && (filter == "not" || filter == "and-not" || filter == "or" || filter == "or-many" || filter == "tree") {
				filter = "metadata" // the v1 query parameters cannot express composite filters
			}
			if layer == "L3-v1-accounts" && rapid.IntRange(0, 2).Draw(rt, "balanceFilter") == 0 {
				filter = "balance" // a bound on the balance, with an operand a 64-bit float cannot hold
			}
		}
		desc := rapid.Bool().Draw(rt, "desc")
		// a generated filter: $and / $or / $not nested to depth 3 over atoms whose truth on a row is known
		// (k=v holds on tagged rows; k=w and k2=x hold on none)
		var tree *c17Filter
		if filter == "tree" {
			tree = c17DrawFilter(rt, 0)
		}

		// rows
		eng := &sqlrec.Engine{Tables: map[string]*sqlrec.Table{}, Ledger: "l1"}
		items := &sqlrec.Table{Columns: []string{"id", "name"}}
		txs := &sqlrec.Table{Columns: []string{"id", "timestamp", "reference", "postings", "metadata"}}
		logs := &sqlrec.Table{Columns: []string{"ledger", "id", "type", "hash", "date", "data", "idempotency_key"}}
		accounts := &sqlrec.Table{Columns: []string{"address", "metadata"}}
		// metadata revisions (what the history triggers of the schema keep): the item's current metadata is its
		// newest revision; older revisions carry other values, also ones the filter of the walk would match
		txMeta := &sqlrec.Table{Columns: []string{"transactions_seq", "revision", "date", "metadata"}}
		accMeta := &sqlrec.Table{Columns: []string{"accounts_seq", "revision", "date", "metadata"}}
		var expected []string
		var expAccounts []string
		for i, id := range ids {
			ref := fmt.Sprintf("u%d", i)
			md := "{}"
			match := true
			tag := rapid.IntRange(0, 2).Draw(rt, "tag") == 0
			if tag {
				ref = "r1"
				md = `{"k":"v"}`
			}
			switch filter {
			case "balance":
				match = true // (what the bound selects is not evaluated here: every account passes, the bound itself must survive the walk)
			case "reference", "metadata", "and-not", "or", "or-many":
				match = tag // and-not: k=v and not k2=x (no row has k2); or: k=v or k=w (no row has k=w)
			case "not":
				match = !tag
			case "tree":
				match = tree.eval(tag)
			}
			nRev := 1
			if rapid.IntRange(0, 2).Draw(rt, "revised") == 0 {
				nRev = rapid.IntRange(2, 3).Draw(rt, "revisions")
			}
			for rv := 1; rv <= nRev; rv++ {
				m := md
				if rv < nRev {
					m = rapid.SampledFrom([]string{`{}`, `{"k":"v"}`, `{"k":"old"}`}).Draw(rt, "oldMeta")
				}
				at := time.Unix(1600000000+int64(rv)*1000, 0).UTC()
				txMeta.Rows = append(txMeta.Rows, sqlrec.Row{"transactions_seq": int64(1000 + i), "revision": int64(rv), "date": at, "metadata": []byte(m)})
				accMeta.Rows = append(accMeta.Rows, sqlrec.Row{"accounts_seq": int64(2000 + i), "revision": int64(rv), "date": at, "metadata": []byte(m)})
			}
			items.Rows = append(items.Rows, sqlrec.Row{"id": id.String(), "name": fmt.Sprintf("n%d", i)})
			var refv driver.Value = ref
			if tag && filter != "reference" {
				refv = fmt.Sprintf("t%d", i) // references are unique in a ledger
			}
			txs.Rows = append(txs.Rows, sqlrec.Row{"seq": int64(1000 + i), "id": id.String(), "timestamp": time.Unix(1700000000, 0).UTC(), "reference": refv, "postings": []byte(`[{"source":"world","destination":"a","amount":340282366920938463463374607431768211456,"asset":"USD"}]`), "metadata": []byte(md)})
			logs.Rows = append(logs.Rows, sqlrec.Row{"ledger": "l1", "id": id.String(), "type": "SET_METADATA", "hash": []byte{1, 2}, "date": time.Unix(1700000000, 0).UTC(), "data": []byte(`{"targetType":"ACCOUNT","targetId":"a","metadata":{}}`), "idempotency_key": ""})
			addr := fmt.Sprintf("acc:%s", id.String())
			accounts.Rows = append(accounts.Rows, sqlrec.Row{"seq": int64(2000 + i), "address": addr, "metadata": []byte(md)})
			if match {
				expected = append(expected, id.String())
				expAccounts = append(expAccounts, addr)
			}
		}
		sort.Strings(expAccounts)
		eng.Tables["items"], eng.Tables["transactions"], eng.Tables["logs"], eng.Tables["accounts"] = items, txs, logs, accounts
		eng.Tables["transactions_metadata"], eng.Tables["accounts_metadata"] = txMeta, accMeta
		rec := &sqlrec.Recorder{Answer: eng.Answer}
		db := sqlrec.NewDB(rec)
		defer db.Close()
		store := ledgerstore.NewStoreForVerif(db, "bucket", "l1")
		ctx := context.Background()
		reverse := func(s []string) []string {
			out := make([]string, len(s))
			for i, v := range s {
				out[len(s)-1-i] = v
			}
			return out
		}

		var w c17Walker
		var want []string
		var qb query.Builder
		nAlt := 0
		if filter == "or-many" {
			nAlt = rapid.IntRange(20, 90).Draw(rt, "alternatives")
		}
		switch filter {
		case "reference":
			qb = query.Match("reference", "r1")
		case "metadata":
			qb = query.Match("metadata[k]", "v")
		case "not":
			qb = query.Not(query.Match("metadata[k]", "v"))
		case "and-not":
			qb = query.And(query.Match("metadata[k]", "v"), query.Not(query.Match("metadata[k2]", "x")))
		case "or":
			qb = query.Or(query.Match("metadata[k]", "v"), query.Match("metadata[k]", "w"))
		case "or-many":
			// a long filter: the token that stands for the query grows with it
			alts := []query.Builder{query.Match("metadata[k]", "v")}
			for i := 0; i < nAlt; i++ {
				alts = append(alts, query.Match("metadata[k]", fmt.Sprintf("no-such-value-%03d", i)))
			}
			qb = query.Or(alts...)
		case "tree":
			qb = tree.builder()
		}
		filterBody := ""
		switch filter {
		case "reference":
			filterBody = `{"$match":{"reference":"r1"}}`
		case "metadata":
			filterBody = `{"$match":{"metadata[k]":"v"}}`
		case "not":
			filterBody = `{"$not":{"$match":{"metadata[k]":"v"}}}`
		case "and-not":
			filterBody = `{"$and":[{"$match":{"metadata[k]":"v"}},{"$not":{"$match":{"metadata[k2]":"x"}}}]}`
		case "or":
			filterBody = `{"$or":[{"$match":{"metadata[k]":"v"}},{"$match":{"metadata[k]":"w"}}]}`
		case "or-many":
			parts := []string{`{"$match":{"metadata[k]":"v"}}`}
			for i := 0; i < nAlt; i++ {
				parts = append(parts, fmt.Sprintf(`{"$match":{"metadata[k]":"no-such-value-%03d"}}`, i))
			}
			filterBody = `{"$or":[` + strings.Join(parts, ",") + `]}`
		case "tree":
			filterBody = tree.body()
		}
		be := httpsim.NewFakeBackend()
		be.Override = func(name string) backend.Ledger {
			return &httpsim.StoreLedger{FakeLedger: &httpsim.FakeLedger{Name: name}, Store: store}
		}
		router := httpsim.NewRouter(be, false)
		httpWalker := func(path, idField string, params url.Values, body string) c17Walker {
			get := func(q url.Values) c17Page {
				target := path
				if len(q) > 0 {
					target += "?" + q.Encode()
				}
				resp := httpsim.Serve(router, "GET", target, map[string]string{"Content-Type": "application/json"}, body)
				return c17HTTPPage(resp.Code, resp.Body.Bytes(), idField)
			}
			return c17Walker{
				First: func() c17Page { return get(params) },
				Follow: func(tok string) c17Page {
					q := url.Values{}
					q.Set("cursor", tok)
					return get(q)
				},
			}
		}
		switch layer {
		case "L1-column":
			order := bunpaginate.Order(bunpaginate.OrderAsc)
			want = expected
			if desc {
				order = bunpaginate.OrderDesc
				want = reverse(expected)
			}
			run := func(q bunpaginate.ColumnPaginatedQuery[bool]) c17Page {
				cur, err := bunpaginate.UsingColumn[bool, c17Item](ctx, db.NewSelect().Table("items"), q)
				return pageOf(cur, err, func(i c17Item) string { return (*big.Int)(i.ID).String() })
			}
			w.First = func() c17Page {
				return run(bunpaginate.ColumnPaginatedQuery[bool]{PageSize: uint64(effPage), Column: "id", Order: order})
			}
			w.Follow = func(tok string) c17Page {
				var q bunpaginate.ColumnPaginatedQuery[bool]
				if err := bunpaginate.UnmarshalCursor(tok, &q); err != nil {
					return c17Page{Err: "cursor not accepted: " + err.Error()}
				}
				return run(q)
			}
		case "L1-offset":
			want = expected
			run := func(q bunpaginate.OffsetPaginatedQuery[bool]) c17Page {
				cur, err := bunpaginate.UsingOffset[bool, c17Item](ctx, db.NewSelect().Table("items").OrderExpr("id asc"), q)
				return pageOf(cur, err, func(i c17Item) string { return (*big.Int)(i.ID).String() })
			}
			w.First = func() c17Page {
				return run(bunpaginate.OffsetPaginatedQuery[bool]{PageSize: uint64(effPage)})
			}
			w.Follow = func(tok string) c17Page {
				var q bunpaginate.OffsetPaginatedQuery[bool]
				if err := bunpaginate.UnmarshalCursor(tok, &q); err != nil {
					return c17Page{Err: "cursor not accepted: " + err.Error()}
				}
				return run(q)
			}
		case "L2-transactions":
			want = reverse(expected)
			w.First = func() c17Page {
				q := ledgerstore.NewGetTransactionsQuery(ledgerstore.NewPaginatedQueryOptions(ledgerstore.PITFilterWithVolumes{}).WithQueryBuilder(qb).WithPageSize(uint64(effPage)))
				cur, err := store.GetTransactions(ctx, q)
				return pageOf(cur, err, func(t ledgerTx) string { return t.ID.String() })
			}
			w.Follow = func(tok string) c17Page {
				var q ledgerstore.GetTransactionsQuery
				if err := bunpaginate.UnmarshalCursor(tok, &q); err != nil {
					return c17Page{Err: "cursor not accepted: " + err.Error()}
				}
				cur, err := store.GetTransactions(ctx, q)
				return pageOf(cur, err, func(t ledgerTx) string { return t.ID.String() })
			}
		case "L2-logs":
			want = reverse(expected)
			w.First = func() c17Page {
				cur, err := store.GetLogs(ctx, ledgerstore.NewGetLogsQuery(ledgerstore.PaginatedQueryOptions[any]{PageSize: uint64(effPage)}))
				return pageOf(cur, err, func(l ledgerLog) string { return l.ID.String() })
			}
			w.Follow = func(tok string) c17Page {
				var q ledgerstore.GetLogsQuery
				if err := bunpaginate.UnmarshalCursor(tok, &q); err != nil {
					return c17Page{Err: "cursor not accepted: " + err.Error()}
				}
				cur, err := store.GetLogs(ctx, q)
				return pageOf(cur, err, func(l ledgerLog) string { return l.ID.String() })
			}
		case "L2-accounts":
			want = expAccounts
			w.First = func() c17Page {
				q := ledgerstore.NewGetAccountsQuery(ledgerstore.NewPaginatedQueryOptions(ledgerstore.PITFilterWithVolumes{}).WithQueryBuilder(qb).WithPageSize(uint64(effPage)))
				cur, err := store.GetAccountsWithVolumes(ctx, q)
				return pageOf(cur, err, func(a ledgerAcc) string { return a.Address })
			}
			w.Follow = func(tok string) c17Page {
				var q ledgerstore.GetAccountsQuery
				if err := bunpaginate.UnmarshalCursor(tok, &q); err != nil {
					return c17Page{Err: "cursor not accepted: " + err.Error()}
				}
				cur, err := store.GetAccountsWithVolumes(ctx, q)
				return pageOf(cur, err, func(a ledgerAcc) string { return a.Address })
			}
		default:
			params := url.Values{}
			if pageSize != 0 {
				params.Set("pageSize", fmt.Sprint(pageSize))
			} else if rapid.Bool().Draw(rt, "explicitZero") {
				// "no page size" may also be written out: pageSize=0 is accepted like an absent parameter
				// (a list cut into pages of nothing would never end)
				params.Set("pageSize", "0")
			}
			switch layer {
			case "L3-v2-transactions":
				want = reverse(expected)
				w = httpWalker("/api/ledger/v2/l1/transactions", "id", params, filterBody)
			case "L3-v2-logs":
				want = reverse(expected)
				w = httpWalker("/api/ledger/v2/l1/logs", "id", params, "")
			case "L3-v2-accounts":
				want = expAccounts
				w = httpWalker("/api/ledger/v2/l1/accounts", "address", params, filterBody)
			case "L3-v1-transactions":
				want = reverse(expected)
				if filter == "reference" {
					params.Set("reference", "r1")
				} else if filter == "metadata" {
					params.Set("metadata[k]", "v")
				}
				w = httpWalker("/api/ledger/l1/transactions", "txid", params, "")
			case "L3-v1-accounts":
				want = expAccounts
				if filter == "metadata" {
					params.Set("metadata[k]", "v")
				}
				if filter == "balance" {
					params.Set("balance", rapid.SampledFrom([]string{"9007199254740993", "1000000000000000001", "-9007199254740993", "9223372036854775807"}).Draw(rt, "balanceBound"))
					params.Set("balanceOperator", rapid.SampledFrom([]string{"gt", "gte", "lt", "lte"}).Draw(rt, "balanceOperator"))
				}
				w = httpWalker("/api/ledger/l1/accounts", "address", params, "")
			}
		}

		// the walk
		var pages []c17Page
		fail := func(sig, format string, args ...any) {
			if c.IsKnown(sig) {
				return
			}
			stm := rec.Statements()
			if len(stm) > 12 {
				stm = stm[len(stm)-12:]
			}
			rt.Logf("layer=%s n=%d pageSize=%d filter=%q desc=%v\nexpected: %v\npages: %+v\nlast statements:\n%s", layer, n, pageSize, filter, desc, want, pages, clip(strings.Join(stm, "\n")))
			violation(rt, c, sig, format, args...)
		}
		wantPages := (len(want) + effPage - 1) / effPage
		labels := []string{"layer:" + layer, fmt.Sprintf("pages:%d", min(wantPages, 5)), "filter:" + filter}
		nontrivial := wantPages >= 3 || filter != ""
		key := evid.Key(layer, n, pageSize, filter, desc, fmt.Sprint(ids))
		record := func() {
			c.Case(key, nontrivial, labels, func() any {
				return map[string]any{"layer": layer, "items": n, "pageSize": pageSize, "filter": filter, "expected": want, "pages": pages}
			})
		}
		// a write between two page requests: an account that sorts before everything already listed comes into
		// existence after the first page was read. The traversal started earlier; it must go on listing what it
		// set out to list (v2 lists read as of the instant of their first request)
		interleave := layer == "L3-v2-accounts" && filter == "" && rapid.Bool().Draw(rt, "writeBetweenPages")
		if interleave {
			labels = append(labels, "write-between-pages")
		}
		p := w.First()
		for i := 0; ; i++ {
			if i == 1 && interleave {
				born := time.Now().Add(time.Hour)
				accounts.Rows = append(accounts.Rows, sqlrec.Row{"seq": int64(9000), "address": "aaa:born-later", "metadata": []byte(`{}`), "insertion_date": born})
				accMeta.Rows = append(accMeta.Rows, sqlrec.Row{"accounts_seq": int64(9000), "revision": int64(1), "date": born, "metadata": []byte(`{}`)})
			}
			if len(eng.Unhandled) > 0 {
				record()
				harnessError(rt, "mini engine cannot serve: %s", clip(eng.Unhandled[0]))
			}
			if p.Err != "" {
				pages = append(pages, p)
				record()
				sig := "C17/page-error/" + layer
				if i > 0 && filter != "" {
					sig = "C17/cursor-with-filter-rejected/" + strings.SplitN(layer, "-", 2)[0]
				} else if i > 0 {
					sig = "C17/cursor-rejected/" + layer
				}
				fail(sig, "page %d cannot be fetched: %s", i, p.Err)
				return
			}
			pages = append(pages, p)
			if !p.HasMore {
				break
			}
			if p.Next == "" {
				record()
				fail("C17/hasmore-without-next", "page %d says hasMore but gives no next token", i)
				return
			}
			if i > wantPages+3 {
				record()
				fail("C17/endless", "the walk does not end: %d pages for %d items of page size %d", i+1, len(want), effPage)
				return
			}
			p = w.Follow(p.Next)
		}
		var got []string
		for i, pg := range pages {
			got = append(got, pg.IDs...)
			if i < len(pages)-1 && len(pg.IDs) != effPage {
				record()
				fail("C17/short-page", "page %d has %d items, page size is %d and it is not the last page", i, len(pg.IDs), effPage)
				return
			}
		}
		if strings.Join(got, ",") != strings.Join(want, ",") {
			record()
			fail("C17/enumeration", "following next yields %v, the collection is %v", got, want)
			return
		}
		if pages[0].Previous != "" {
			record()
			fail("C17/previous-on-first", "the first page offers a previous page")
			return
		}
		// backward steps
		for i := 1; i < len(pages); i++ {
			if rapid.IntRange(0, 1).Draw(rt, "back") == 0 {
				continue
			}
			nontrivial = true
			labels = append(labels, "backward")
			if pages[i].Previous == "" {
				record()
				fail("C17/no-previous", "page %d offers no previous page", i)
				return
			}
			b := w.Follow(pages[i].Previous)
			if b.Err != "" {
				record()
				fail("C17/cursor-rejected/"+layer, "the previous token of page %d is not accepted: %s", i, b.Err)
				return
			}
			if strings.Join(b.IDs, ",") != strings.Join(pages[i-1].IDs, ",") {
				record()
				fail("C17/previous", "previous of page %d is %v, the page before it is %v", i, b.IDs, pages[i-1].IDs)
				return
			}
		}
		// walk all the way back from the last page, following the previous token of each page
		// that was itself reached through previous; from some of them step forward again
		if len(pages) >= 2 && rapid.Bool().Draw(rt, "fullBackward") {
			nontrivial = true
			labels = append(labels, "full-backward-walk")
			cur := pages[len(pages)-1]
			for i := len(pages) - 2; i >= 0; i-- {
				if cur.Previous == "" {
					record()
					fail("C17/no-previous", "walking back from the last page: the page at position %d offers no previous page", i+1)
					return
				}
				b := w.Follow(cur.Previous)
				if b.Err != "" {
					record()
					fail("C17/cursor-rejected/"+layer, "walking back: the previous token at position %d is not accepted: %s", i+1, b.Err)
					return
				}
				if strings.Join(b.IDs, ",") != strings.Join(pages[i].IDs, ",") {
					record()
					fail("C17/previous-chain", "walking back from the last page, step to position %d yields %v, the page there is %v", i, b.IDs, pages[i].IDs)
					return
				}
				if !b.HasMore || b.Next == "" {
					record()
					fail("C17/previous-chain", "the page at position %d, reached through previous, says it has no next page", i)
					return
				}
				if rapid.IntRange(0, 2).Draw(rt, "zigzag") == 0 {
					f := w.Follow(b.Next)
					if f.Err != "" || strings.Join(f.IDs, ",") != strings.Join(pages[i+1].IDs, ",") {
						record()
						fail("C17/next-after-previous", "next of the page at position %d (reached through previous) yields %v %s, the page after it is %v", i, f.IDs, f.Err, pages[i+1].IDs)
						return
					}
				}
				cur = b
			}
			if cur.Previous != "" {
				record()
				fail("C17/previous-on-first", "the first page, reached by walking back, offers a previous page")
				return
			}
		}
		// every statement of the walk carries the filter of the first request
		if len(eng.Conjuncts) > 0 {
			first := strings.Join(eng.Conjuncts[0], " & ")
			for i, cj := range eng.Conjuncts {
				if strings.Join(cj, " & ") != first {
					record()
					fail("C17/filter-lost", "statement %d of the walk filters on [%s], the first request on [%s]", i, strings.Join(cj, " & "), first)
					return
				}
			}
		}
		record()
	})
}

// c17Filter is a generated filter expression; eval is its truth on a row, given whether the row is tagged (k=v).
type c17Filter struct {
	Op   string // "k=v", "k=w", "k2=x", "$not", "$and", "$or"
	Kids []*c17Filter
}

func c17DrawFilter(rt *rapid.T, depth int) *c17Filter {
	ops := []string{"k=v", "k=v", "k=w", "k2=x", "$not", "$and", "$or", "$and", "$or"}
	if depth >= 3 {
		ops = ops[:4]
	}
	if depth == 0 {
		ops = ops[5:] // the root is a set: that is where nesting shows
	}
	f := &c17Filter{Op: rapid.SampledFrom(ops).Draw(rt, "filterOp")}
	switch f.Op {
	case "$not":
		f.Kids = []*c17Filter{c17DrawFilter(rt, depth+1)}
	case "$and", "$or":
		n := rapid.IntRange(1, 3).Draw(rt, "filterArity")
		for i := 0; i < n; i++ {
			f.Kids = append(f.Kids, c17DrawFilter(rt, depth+1))
		}
	}
	return f
}

func (f *c17Filter) eval(tag bool) bool {
	switch f.Op {
	case "k=v":
		return tag
	case "k=w", "k2=x":
		return false
	case "$not":
		return !f.Kids[0].eval(tag)
	case "$and":
		for _, k := range f.Kids {
			if !k.eval(tag) {
				return false
			}
		}
		return true
	default:
		for _, k := range f.Kids {
			if k.eval(tag) {
				return true
			}
		}
		return false
	}
}

func (f *c17Filter) atom() (string, string) {
	switch f.Op {
	case "k=v":
		return "metadata[k]", "v"
	case "k=w":
		return "metadata[k]", "w"
	}
	return "metadata[k2]", "x"
}

func (f *c17Filter) builder() query.Builder {
	switch f.Op {
	case "$not":
		return query.Not(f.Kids[0].builder())
	case "$and", "$or":
		var kids []query.Builder
		for _, k := range f.Kids {
			kids = append(kids, k.builder())
		}
		if f.Op == "$and" {
			return query.And(kids...)
		}
		return query.Or(kids...)
	}
	k, v := f.atom()
	return query.Match(k, v)
}

func (f *c17Filter) body() string {
	switch f.Op {
	case "$not":
		return `{"$not":` + f.Kids[0].body() + `}`
	case "$and", "$or":
		var kids []string
		for _, k := range f.Kids {
			kids = append(kids, k.body())
		}
		return `{"` + f.Op + `":[` + strings.Join(kids, ",") + `]}`
	}
	k, v := f.atom()
	return fmt.Sprintf(`{"$match":{%q:%q}}`, k, v)
}
