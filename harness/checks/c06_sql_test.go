package checks

// C06, store-layer family: the acknowledgement the engine gives rests on one fact about the PostgreSQL store --
// InsertLogs answers nil only when the batch is committed. The real ledgerstore.Store is run over a recording
// database/sql driver that keeps the rows of a transaction apart until its COMMIT succeeds and fails one
// driver-level step (begin, prepare of the COPY, a row, the flush, the statement close, the COMMIT itself); one
// run per step, exhaustively for the generated batch.

import (
	"context"
	"fmt"
	"strings"

	ledger "github.com/formancehq/ledger/internal"
	"github.com/formancehq/ledger/internal/storage/ledgerstore"
	"github.com/formancehq/ledger/verifharness/evid"
	"github.com/formancehq/ledger/verifharness/sqlrec"
	"pgregory.net/rapid"
)

func c06StoreLayer(rt *rapid.T, c *evid.Collector) {
	n := rapid.IntRange(1, 5).Draw(rt, "slBatch")
	var prev *ledger.ChainedLog
	var batch []*ledger.ChainedLog
	var kinds []string
	for i := 0; i < n; i++ {
		e := c13DrawEntry(rt)
		cl := e.Log.ChainLog(prev)
		prev = cl
		batch = append(batch, cl)
		kinds = append(kinds, e.Kind)
	}
	run := func(failAt int) (err error, script *sqlrec.TxScript, panicked any) {
		script = &sqlrec.TxScript{FailAt: failAt}
		rec := &sqlrec.Recorder{Tx: script}
		db := sqlrec.NewDB(rec)
		defer db.Close()
		store := ledgerstore.NewStoreForVerif(db, "bucket", "l1")
		panicked = safely(func() { err = store.InsertLogs(context.Background(), batch...) })
		return
	}
	err, base, p := run(-1)
	if p != nil {
		violation(rt, c, "C06/store-layer/panic", "InsertLogs panicked: %v", p)
		return
	}
	if err != nil || len(base.Committed) != n {
		harnessError(rt, "without any failure InsertLogs answered %v and %d of %d rows were committed (steps %v)", err, len(base.Committed), n, base.Steps)
	}
	steps := len(base.Steps)
	for k := 0; k < steps; k++ {
		err, script, p := run(k)
		failed := "?"
		if k < len(script.Steps) {
			failed = strings.TrimSuffix(script.Steps[k], " FAILS")
		}
		c.Case(evid.Key("store-layer", strings.Join(kinds, ","), k), true, []string{"family:store-layer", "failing-step:" + failed}, func() any {
			return map[string]any{"family": "store layer", "batch": kinds, "failingStep": k, "steps": script.Steps, "answer": fmt.Sprint(err), "rowsCommitted": len(script.Committed)}
		})
		fail := func(sig, format string, args ...any) {
			if c.IsKnown(sig) {
				return
			}
			rt.Logf("batch %v, driver steps %v", kinds, script.Steps)
			violation(rt, c, sig, format, args...)
		}
		if p != nil {
			fail("C06/store-layer/panic", "InsertLogs panicked when step %d (%s) failed: %v", k, failed, p)
			return
		}
		if err == nil && len(script.Committed) != n {
			fail("C06/store-layer/acknowledged-not-committed", "step %d (%s) of the batch transaction failed, %d of %d rows are committed, and InsertLogs answered success (every request of the batch is then acknowledged)", k, failed, len(script.Committed), n)
			return
		}
		if err != nil && len(script.Committed) != 0 {
			fail("C06/store-layer/refused-but-committed", "InsertLogs answered %v although %d row(s) of the batch are committed", err, len(script.Committed))
			return
		}
	}
	c.Add("store_layer_batches", 1)
	c.Add("store_layer_failing_steps", steps)
}
