package checks

// Parallel family shared by C07, C10 and C11: the in-process reservation of a
// reference, an idempotency key or a transaction being reverted has no
// blocking point inside it that a scheduler could own, so whether it is
// exclusive can only be observed under real parallelism. Several goroutines
// are released together against one real Commander (model store, outside any
// simulator) with requests that all claim the same thing; whatever the timing,
// at most one of them may take effect. The oracle is an invariant of the
// outcome, so a run on correct code cannot fail whatever the scheduling.

import (
	"context"
	"fmt"
	"math/big"
	"sync"

	ledger "github.com/formancehq/ledger/internal"
	"github.com/formancehq/ledger/internal/engine/command"
	"github.com/formancehq/ledger/verifharness/enginesim"
	"github.com/formancehq/ledger/verifharness/evid"
	"github.com/formancehq/stack/libs/go-libs/logging"
	"github.com/formancehq/stack/libs/go-libs/metadata"
	"pgregory.net/rapid"
)

type parKind string

const (
	parReference parKind = "reference"
	parKey       parKind = "idempotency-key"
	parRevert    parKind = "revert"
)

type parDiscard struct{}

func (parDiscard) Debugf(string, ...any)                        {}
func (parDiscard) Infof(string, ...any)                         {}
func (parDiscard) Errorf(string, ...any)                        {}
func (parDiscard) Debug(...any)                                 {}
func (parDiscard) Info(...any)                                  {}
func (parDiscard) Error(...any)                                 {}
func (l parDiscard) WithFields(map[string]any) logging.Logger   { return l }
func (l parDiscard) WithField(string, any) logging.Logger       { return l }
func (l parDiscard) WithContext(context.Context) logging.Logger { return l }

// parallelClaims runs the family for one case and reports through c. prop is the
// property's id (the signatures are <prop>/parallel/...).
func parallelClaims(rt *rapid.T, c *evid.Collector, prop string, kind parKind) {
	store, commander, stop := enginesim.Standalone()
	defer stop()
	ctx := logging.ContextWithLogger(context.Background(), parDiscard{})
	rounds := rapid.IntRange(10, 40).Draw(rt, "parRounds")
	width := rapid.IntRange(2, 8).Draw(rt, "parWidth")
	posting := func(dst string, amt int64) ledger.RunScript {
		return ledger.TxToScriptData(ledger.TransactionData{Postings: ledger.Postings{ledger.NewPosting("world", dst, "USD", big.NewInt(amt))}, Metadata: metadata.Metadata{}}, false)
	}
	// for reverts: one transaction per round to aim at
	var targets []*big.Int
	if kind == parRevert {
		for r := 0; r < rounds; r++ {
			tx, err := commander.CreateTransaction(ctx, command.Parameters{}, posting(fmt.Sprintf("t%d", r), 5))
			if err != nil {
				harnessError(rt, "cannot create the transaction to revert: %v", err)
			}
			targets = append(targets, tx.ID)
		}
	}
	type outcome struct {
		ok  bool
		err string
		tx  *ledger.Transaction
	}
	worst := 0
	for r := 0; r < rounds; r++ {
		start := make(chan struct{})
		res := make([]outcome, width)
		var wg sync.WaitGroup
		for g := 0; g < width; g++ {
			wg.Add(1)
			go func(g int) {
				defer wg.Done()
				<-start
				var tx *ledger.Transaction
				var err error
				switch kind {
				case parReference:
					rs := posting(fmt.Sprintf("r%dg%d", r, g), int64(1+g))
					rs.Reference = fmt.Sprintf("ref-%d", r)
					tx, err = commander.CreateTransaction(ctx, command.Parameters{}, rs)
				case parKey:
					// the same request sent width times under one key (a client retrying in parallel)
					tx, err = commander.CreateTransaction(ctx, command.Parameters{IdempotencyKey: fmt.Sprintf("key-%d", r)}, posting(fmt.Sprintf("k%d", r), 3))
				case parRevert:
					tx, err = commander.RevertTransaction(ctx, command.Parameters{}, targets[r], true)
				}
				res[g] = outcome{ok: err == nil, tx: tx}
				if err != nil {
					res[g].err = err.Error()
				}
			}(g)
		}
		close(start)
		wg.Wait()
		oks := 0
		for _, o := range res {
			if o.ok {
				oks++
			}
		}
		if kind != parKey && oks > worst {
			worst = oks
		}
	}
	// what the log holds, per claimed thing
	perClaim := map[string]int{}
	for _, e := range store.Entries {
		switch p := e.Log.Data.(type) {
		case ledger.NewTransactionLogPayload:
			if kind == parReference && p.Transaction.Reference != "" {
				perClaim[p.Transaction.Reference]++
			}
			if kind == parKey && e.Log.IdempotencyKey != "" {
				perClaim[e.Log.IdempotencyKey]++
			}
		case ledger.RevertedTransactionLogPayload:
			if kind == parRevert {
				perClaim[p.RevertedTransactionID.String()]++
			}
		}
	}
	c.Case(evid.Key("parallel", string(kind), rounds, width), true, []string{"family:parallel-claims", fmt.Sprintf("parallel-width:%d", width)}, func() any {
		return map[string]any{"family": "parallel claims", "claim": string(kind), "rounds": rounds, "goroutinesPerRound": width, "entries": len(store.Entries)}
	})
	for claim, n := range perClaim {
		if n > 1 {
			sig := prop + "/parallel/" + string(kind) + "-taken-twice"
			if !c.IsKnown(sig) {
				violation(rt, c, sig, "%d requests released together all claimed %s %q and %d of them took effect (the log holds %d entries for it)", width, kind, claim, n, n)
			}
			return
		}
	}
	if kind != parKey && worst > 1 {
		sig := prop + "/parallel/" + string(kind) + "-granted-twice"
		if !c.IsKnown(sig) {
			violation(rt, c, sig, "%d of %d requests released together on one %s were answered with success", worst, width, kind)
		}
	}
}
