package checks

// C04 (partial, see DESIGN.md 6): what can be decided without PostgreSQL.
//  (a) ledger isolation of every read query: the SQL a Store sends depends on
//      its ledger name exactly through string constants equal to that name;
//  (b) Go-side volume derivations against the harness fold;
//  (c) storage.InMemoryStore against the harness fold.

import (
	"context"
	"fmt"
	"math/big"
	"strings"
	"testing"
	"time"

	ledger "github.com/formancehq/ledger/internal"
	"github.com/formancehq/ledger/internal/storage"
	"github.com/formancehq/ledger/internal/storage/ledgerstore"
	"github.com/formancehq/ledger/verifharness/enginesim"
	"github.com/formancehq/ledger/verifharness/evid"
	"github.com/formancehq/ledger/verifharness/gen"
	"github.com/formancehq/ledger/verifharness/sqlrec"
	"github.com/formancehq/stack/libs/go-libs/metadata"
	"github.com/formancehq/stack/libs/go-libs/query"
	"pgregory.net/rapid"
)

type c04Call struct {
	Name string
	Desc string
	Run  func(s *ledgerstore.Store) error
}

func c04Filter(t *rapid.T, keys []string) query.Builder {
	if rapid.IntRange(0, 2).Draw(t, "noFilter") == 0 {
		return nil
	}
	one := func() query.Builder {
		k := rapid.SampledFrom(keys).Draw(t, "fkey")
		var v any = rapid.SampledFrom([]string{"a", "users:", ":x", "r1", "2023-01-01T00:00:00Z", "10"}).Draw(t, "fval")
		if strings.HasPrefix(k, "balance") {
			v = 10
		}
		op := rapid.SampledFrom([]string{"match", "match", "lt", "gte"}).Draw(t, "fop")
		switch op {
		case "lt":
			return query.Lt(k, v)
		case "gte":
			return query.Gte(k, v)
		}
		return query.Match(k, v)
	}
	switch rapid.IntRange(0, 3).Draw(t, "fshape") {
	case 0:
		return query.And(one(), one())
	case 1:
		return query.Or(one(), query.Not(one()))
	}
	return one()
}

func c04GenCall(t *rapid.T) c04Call {
	ctx := context.Background()
	pitf := ledgerstore.PITFilterWithVolumes{}
	desc := []string{}
	if rapid.Bool().Draw(t, "pit") {
		ts, _ := ledger.ParseTime("2023-06-01T00:00:00Z")
		pitf.PIT = &ts
		desc = append(desc, "pit")
	}
	if rapid.Bool().Draw(t, "volumes") {
		pitf.ExpandVolumes = true
		desc = append(desc, "volumes")
	}
	if rapid.Bool().Draw(t, "effective") {
		pitf.ExpandEffectiveVolumes = true
		desc = append(desc, "effective")
	}
	pageSize := uint64(rapid.SampledFrom([]int{1, 15, 100}).Draw(t, "pageSize"))
	name := rapid.SampledFrom([]string{"GetAccount", "GetAccountWithVolumes", "GetAccountsWithVolumes", "CountAccounts", "GetBalance", "GetAggregatedBalances", "GetTransaction", "GetTransactionWithVolumes", "GetTransactions", "CountTransactions", "GetLastTransaction", "GetTransactionByReference", "GetLogs", "GetLastLog", "ReadLogWithIdempotencyKey"}).Draw(t, "method")
	c := c04Call{Name: name}
	accKeys := []string{"address", "metadata[k]", "balance", "balance[USD]"}
	txKeys := []string{"account", "source", "destination", "reference", "timestamp", "metadata[k]"}
	switch name {
	case "GetAccount":
		c.Run = func(s *ledgerstore.Store) error { _, err := s.GetAccount(ctx, "a:b"); return err }
	case "GetAccountWithVolumes":
		c.Run = func(s *ledgerstore.Store) error {
			_, err := s.GetAccountWithVolumes(ctx, ledgerstore.GetAccountQuery{PITFilterWithVolumes: pitf, Addr: "a:b"})
			return err
		}
	case "GetAccountsWithVolumes", "CountAccounts":
		qb := c04Filter(t, accKeys)
		if qb != nil {
			desc = append(desc, "filter")
		}
		q := ledgerstore.NewGetAccountsQuery(ledgerstore.NewPaginatedQueryOptions(pitf).WithQueryBuilder(qb).WithPageSize(pageSize))
		q.Offset = uint64(rapid.SampledFrom([]int{0, 15}).Draw(t, "offset"))
		if name == "CountAccounts" {
			c.Run = func(s *ledgerstore.Store) error { _, err := s.CountAccounts(ctx, q); return err }
		} else {
			c.Run = func(s *ledgerstore.Store) error { _, err := s.GetAccountsWithVolumes(ctx, q); return err }
		}
	case "GetBalance":
		c.Run = func(s *ledgerstore.Store) error { _, err := s.GetBalance(ctx, "a:b", "USD"); return err }
	case "GetAggregatedBalances":
		qb := c04Filter(t, []string{"address", "metadata[k]"})
		if qb != nil {
			desc = append(desc, "filter")
		}
		opts := ledgerstore.NewPaginatedQueryOptions(pitf.PITFilter).WithQueryBuilder(qb)
		c.Run = func(s *ledgerstore.Store) error {
			_, err := s.GetAggregatedBalances(ctx, ledgerstore.NewGetAggregatedBalancesQuery(opts))
			return err
		}
	case "GetTransaction":
		c.Run = func(s *ledgerstore.Store) error { _, err := s.GetTransaction(ctx, big.NewInt(3)); return err }
	case "GetTransactionWithVolumes":
		c.Run = func(s *ledgerstore.Store) error {
			_, err := s.GetTransactionWithVolumes(ctx, ledgerstore.GetTransactionQuery{PITFilterWithVolumes: pitf, ID: big.NewInt(3)})
			return err
		}
	case "GetTransactions", "CountTransactions":
		qb := c04Filter(t, txKeys)
		if qb != nil {
			desc = append(desc, "filter")
		}
		q := ledgerstore.NewGetTransactionsQuery(ledgerstore.NewPaginatedQueryOptions(pitf).WithQueryBuilder(qb).WithPageSize(pageSize))
		if rapid.Bool().Draw(t, "positioned") {
			q.PaginationID = big.NewInt(7)
			desc = append(desc, "positioned")
		}
		if name == "CountTransactions" {
			c.Run = func(s *ledgerstore.Store) error { _, err := s.CountTransactions(ctx, q); return err }
		} else {
			c.Run = func(s *ledgerstore.Store) error { _, err := s.GetTransactions(ctx, q); return err }
		}
	case "GetLastTransaction":
		c.Run = func(s *ledgerstore.Store) error { _, err := s.GetLastTransaction(ctx); return err }
	case "GetTransactionByReference":
		c.Run = func(s *ledgerstore.Store) error { _, err := s.GetTransactionByReference(ctx, "ref-1"); return err }
	case "GetLogs":
		qb := c04Filter(t, []string{"date"})
		if qb != nil {
			desc = append(desc, "filter")
		}
		q := ledgerstore.NewGetLogsQuery(ledgerstore.PaginatedQueryOptions[any]{QueryBuilder: qb, PageSize: pageSize})
		if rapid.Bool().Draw(t, "positioned") {
			q.PaginationID = big.NewInt(7)
			desc = append(desc, "positioned")
		}
		c.Run = func(s *ledgerstore.Store) error { _, err := s.GetLogs(ctx, q); return err }
	case "GetLastLog":
		c.Run = func(s *ledgerstore.Store) error { _, err := s.GetLastLog(ctx); return err }
	case "ReadLogWithIdempotencyKey":
		c.Run = func(s *ledgerstore.Store) error { _, err := s.ReadLogWithIdempotencyKey(ctx, "ik-1"); return err }
	}
	c.Desc = name + "(" + strings.Join(desc, ",") + ")"
	return c
}

var c04CoreTables = map[string]bool{"accounts": true, "transactions": true, "moves": true, "logs": true}

// c04Isolation checks one statement pair; returns "" when fine.
func c04Isolation(s1, s2, l1, l2 string) string {
	t1, err := sqlrec.Lex(s1)
	if err != nil {
		return "statement does not lex: " + err.Error()
	}
	t2, err := sqlrec.Lex(s2)
	if err != nil {
		return "statement does not lex: " + err.Error()
	}
	if len(t1) != len(t2) {
		return "the two ledgers get statements of different shape"
	}
	carries := 0
	mentions := false
	for i := range t1 {
		a, b := t1[i], t2[i]
		if a.Kind != b.Kind {
			return "the two ledgers get statements of different shape"
		}
		if a.Kind == sqlrec.TString && a.Text == l1 {
			carries++
			if b.Text != l2 {
				return fmt.Sprintf("constant %q of ledger 1 corresponds to %q for ledger 2", a.Text, b.Text)
			}
			continue
		}
		if a.Text != b.Text {
			return fmt.Sprintf("the statements differ in %q vs %q, which is not the ledger name", a.Text, b.Text)
		}
		if (a.Kind == sqlrec.TIdent || a.Kind == sqlrec.TQuotedIdent) && c04CoreTables[strings.ToLower(a.Text)] {
			mentions = true
		}
	}
	if mentions && carries == 0 {
		return "the statement reads a ledger-scoped table but does not mention the ledger name: rows of every ledger of the bucket are visible"
	}
	// every select block that reads a ledger-scoped table restricts the ledger itself (or joins on a seq key)
	bad, err := sqlrec.UnscopedSelects(s1, l1, c04ScopedTables)
	if err != nil {
		return "statement structure: " + err.Error()
	}
	if len(bad) > 0 {
		return bad[0]
	}
	return ""
}

var c04ScopedTables = map[string]bool{"accounts": true, "transactions": true, "moves": true, "logs": true, "accounts_metadata": true, "transactions_metadata": true}

func TestC04(t *testing.T) {
	c := evid.New("C04")
	c.Rule = "PARTIAL CLAIM (the plpgsql projection cannot be executed here). Seven generated families: (a) read calls on ledgerstore.Store (15 methods x PIT / expand flags / filters incl. $and $or not / page sizes / positions) issued on two stores with different ledger names over one bucket and a recording driver; oracle: statement i of ledger 1 equals statement i of ledger 2 after replacing the string constant <name1> by <name2>, and every statement that names accounts, transactions, moves or logs carries the ledger name as a string constant; (b) ledger.ExpandTransaction and volume helpers on generated postings against the harness fold (delta of inputs/outputs per account and asset, sum of inputs == sum of outputs per asset); (c) storage.InMemoryStore fed with generated log sequences against the harness fold (balances, reverted flag, last log, last transaction, reference and idempotency-key lookups); (d) GetAggregatedBalances with generated point-in-time bounds and address filters (exact, wildcard segments, and/or/not) evaluated over a Go model of the moves table holding two ledgers and transactions whose effective date differs from their insertion date, against the fold of the entries of that ledger written up to the instant; (e) transactions read back with expand=volumes / effectiveVolumes (one by id, or a list): the rows a replay of a generated log of 1-6 multi-posting transactions defines (post-commit volumes by insertion order and by effective date, accounts repeated within a transaction, intermediaries, self-transfers, >64-bit amounts) are served through the recording driver, and the pre- and post-commit volumes the store reports must be the replay before and after each transaction. (f) metadata of transactions and accounts as of a point in time: a generated history (transactions with past / present / future effective dates, metadata set and deleted later) is turned into the revision rows the schema's history triggers keep, the point-in-time statements of GetTransactionWithVolumes / GetTransactions / GetAccountWithVolumes / GetAccountsWithVolumes (with and without a metadata filter) are evaluated over them by the mini SQL engine (joins, bounds, ORDER BY, LIMIT, DISTINCT ON) and compared with a replay of the history up to the instant; the transaction list is read page by page (1, 2, 3 or 50 per page) forward to the end and back to the start through its tokens: the concatenation must be the replay and every page must show on the way back what it showed on the way out. (g) comparison operators: the same list call (accounts, transactions, logs; list and count; with and without a point in time; the comparison alone or inside $and / $or / $not) made with two different operators of $lt $lte $gt $gte $match on balance, balance[ASSET], timestamp, reference or date must send statements that differ, and differ in comparison operators only. Non-trivial = (a) a call with a filter, PIT or expansion, (b) >=2 postings sharing an account, (c) a sequence with a revert, (d) a point-in-time bound or a filter, (e) an (account, asset) pair named more than once in a transaction, (f) a history with a metadata change or a transaction not yet effective at the instant, (g) both operators accepted; distinct by call description / postings / log sequence."
	c.Assumptions = []string{"the SQL functions, triggers and views of 0-init-schema.sql are NOT executed: a defect confined to the .sql file is outside this check", "bun renders bound arguments into the statement text, so string constants are visible to the recording driver"}
	runProp(t, c, func(rt *rapid.T) {
		switch rapid.SampledFrom([]string{"isolation", "isolation", "volumes", "inmemory", "aggregated", "aggregated", "tx-volumes", "pit-metadata", "pit-metadata", "operators"}).Draw(rt, "family") {
		case "operators":
			c04Operators(rt, c)
		case "pit-metadata":
			c04PITMetadata(rt, c)
		case "aggregated":
			c04Aggregated(rt, c)
		case "tx-volumes":
			c04TxVolumes(rt, c)
		case "isolation":
			call := c04GenCall(rt)
			const l1, l2 = "LDG_one", "LDG_two"
			rec1, rec2 := &sqlrec.Recorder{}, &sqlrec.Recorder{}
			db1, db2 := sqlrec.NewDB(rec1), sqlrec.NewDB(rec2)
			defer db1.Close()
			defer db2.Close()
			var e1, e2 error
			p1 := safely(func() { e1 = call.Run(ledgerstore.NewStoreForVerif(db1, "bucket", l1)) })
			p2 := safely(func() { e2 = call.Run(ledgerstore.NewStoreForVerif(db2, "bucket", l2)) })
			s1, s2 := rec1.Statements(), rec2.Statements()
			c.Case("a:"+call.Desc, strings.Contains(call.Desc, "filter") || strings.Contains(call.Desc, "pit") || strings.Contains(call.Desc, "volumes"), []string{"a:" + call.Name}, func() any {
				return map[string]any{"family": "isolation", "call": call.Desc, "statements": s1}
			})
			if p1 != nil || p2 != nil {
				// e.g. a filter key the store refuses by panicking: not an isolation question
				c.Label("a:panicked")
				return
			}
			_, _ = e1, e2
			if len(s1) != len(s2) {
				violation(rt, c, "C04/isolation/statement-count/"+call.Name, "%s sends %d statements for one ledger and %d for the other", call.Desc, len(s1), len(s2))
				return
			}
			for i := range s1 {
				if d := c04Isolation(s1[i], s2[i], l1, l2); d != "" {
					sig := "C04/isolation/" + call.Name
					if !c.IsKnown(sig) {
						rt.Logf("ledger %s: %s\nledger %s: %s", l1, s1[i], l2, s2[i])
						violation(rt, c, sig, "%s, statement %d: %s", call.Desc, i, d)
					}
					return
				}
			}
		case "volumes":
			n := rapid.IntRange(1, 6).Draw(rt, "nPostings")
			accs := []string{"a", "b", "world", "c:d"}
			assets := []string{"USD", "EUR/2"}
			var ps []ledger.Posting
			for i := 0; i < n; i++ {
				ps = append(ps, ledger.NewPosting(rapid.SampledFrom(accs).Draw(rt, "src"), rapid.SampledFrom(accs).Draw(rt, "dst"), rapid.SampledFrom(assets).Draw(rt, "asset"), new(big.Int).Set(gen.Amount().Draw(rt, "amount"))))
			}
			pre := ledger.AccountsAssetsVolumes{}
			for _, a := range accs {
				for _, as := range assets {
					if rapid.IntRange(0, 2).Draw(rt, "hasPre") == 0 {
						pre.SetVolumes(a, as, &ledger.Volumes{Input: new(big.Int).Set(gen.Amount().Draw(rt, "in")), Output: new(big.Int).Set(gen.Amount().Draw(rt, "out"))})
					}
				}
			}
			preCopy := pre.Copy()
			tx := ledger.NewTransaction().WithPostings(ps...)
			shared := false
			seen := map[string]bool{}
			for _, p := range ps {
				for _, a := range []string{p.Source, p.Destination} {
					if seen[a] {
						shared = true
					}
					seen[a] = true
				}
			}
			var key strings.Builder
			for _, p := range ps {
				fmt.Fprintf(&key, "%s>%s %s %s;", p.Source, p.Destination, p.Asset, p.Amount)
			}
			c.Case("b:"+key.String(), shared && n >= 2, []string{"b:volumes"}, func() any {
				return map[string]any{"family": "volumes", "postings": key.String()}
			})
			var ex ledger.ExpandedTransaction
			if p := safely(func() { ex = ledger.ExpandTransaction(tx, pre) }); p != nil {
				violation(rt, c, "C04/volumes/panic", "ExpandTransaction panicked on postings %s: %v", key.String(), p)
				return
			}
			in, out := map[string]*big.Int{}, map[string]*big.Int{}
			add := func(m map[string]*big.Int, k string, v *big.Int) {
				if m[k] == nil {
					m[k] = new(big.Int)
				}
				m[k].Add(m[k], v)
			}
			for _, p := range ps {
				add(in, p.Destination+"/"+p.Asset, p.Amount)
				add(out, p.Source+"/"+p.Asset, p.Amount)
			}
			for _, a := range accs {
				for _, as := range assets {
					k := a + "/" + as
					touched := in[k] != nil || out[k] != nil
					if !touched {
						continue
					}
					if !ex.PostCommitVolumes.HasAccountAndAsset(a, as) || !ex.PreCommitVolumes.HasAccountAndAsset(a, as) {
						violation(rt, c, "C04/volumes/missing", "volumes of %s missing after expansion", k)
						return
					}
					was := &ledger.Volumes{Input: new(big.Int), Output: new(big.Int)}
					if preCopy.HasAccountAndAsset(a, as) {
						was = preCopy.GetVolumes(a, as)
					}
					post := ex.PostCommitVolumes.GetVolumes(a, as)
					wantIn, wantOut := new(big.Int).Set(was.Input), new(big.Int).Set(was.Output)
					if in[k] != nil {
						wantIn.Add(wantIn, in[k])
					}
					if out[k] != nil {
						wantOut.Add(wantOut, out[k])
					}
					if post.Input.Cmp(wantIn) != 0 || post.Output.Cmp(wantOut) != 0 {
						violation(rt, c, "C04/volumes/delta", "post-commit volumes of %s are in=%v out=%v, the postings define in=%v out=%v", k, post.Input, post.Output, wantIn, wantOut)
						return
					}
					if b := ex.PostCommitVolumes[a].Balances()[as]; b.Cmp(new(big.Int).Sub(wantIn, wantOut)) != 0 {
						violation(rt, c, "C04/volumes/balance", "balance of %s is %v", k, b)
						return
					}
				}
			}
		case "inmemory":
			// a well-formed log: transactions with dense ids, reverts of existing non-reverted ones, metadata logs
			store := storage.NewInMemoryStore()
			fold := enginesim.NewFold()
			n := rapid.IntRange(1, 10).Draw(rt, "nLogs")
			var prev *ledger.ChainedLog
			nextTx := int64(0)
			hasRevert := false
			var desc strings.Builder
			keys := map[string]*ledger.ChainedLog{}
			refs := map[string]int64{}
			reverted := map[int64]bool{}
			ctx := context.Background()
			for i := 0; i < n; i++ {
				var l *ledger.Log
				kind := rapid.SampledFrom([]string{"tx", "tx", "tx", "revert", "meta"}).Draw(rt, "logKind")
				if kind == "revert" && nextTx == 0 {
					kind = "tx"
				}
				mk := func() *ledger.Transaction {
					np := rapid.IntRange(1, 3).Draw(rt, "np")
					var ps []ledger.Posting
					for j := 0; j < np; j++ {
						ps = append(ps, ledger.NewPosting(rapid.SampledFrom([]string{"world", "a", "b"}).Draw(rt, "s"), rapid.SampledFrom([]string{"a", "b", "c"}).Draw(rt, "d"), rapid.SampledFrom([]string{"USD", "EUR/2"}).Draw(rt, "as"), big.NewInt(int64(rapid.IntRange(0, 100).Draw(rt, "amt")))))
					}
					tx := ledger.NewTransaction().WithPostings(ps...).WithIDUint64(uint64(nextTx)).WithMetadata(metadata.Metadata{})
					nextTx++
					return tx
				}
				switch kind {
				case "tx":
					tx := mk()
					if rapid.IntRange(0, 2).Draw(rt, "hasRef") == 0 {
						ref := fmt.Sprintf("ref%d", tx.ID.Int64())
						tx = tx.WithReference(ref)
						refs[ref] = tx.ID.Int64()
					}
					l = ledger.NewTransactionLog(tx, nil)
				case "revert":
					target := int64(rapid.IntRange(0, int(nextTx)-1).Draw(rt, "target"))
					if reverted[target] {
						continue
					}
					reverted[target] = true
					hasRevert = true
					tx := mk()
					l = ledger.NewRevertedTransactionLog(ledger.Now(), big.NewInt(target), tx)
				case "meta":
					l = ledger.NewSetMetadataOnAccountLog(ledger.Now(), "a", metadata.Metadata{"k": fmt.Sprint(i)})
				}
				if rapid.IntRange(0, 3).Draw(rt, "hasIK") == 0 {
					l = l.WithIdempotencyKey(fmt.Sprintf("ik%d", i))
				}
				cl := l.ChainLog(prev)
				prev = cl
				if cl.IdempotencyKey != "" {
					keys[cl.IdempotencyKey] = cl
				}
				fmt.Fprintf(&desc, "%s;", kind)
				if err := store.InsertLogs(ctx, cl); err != nil {
					violation(rt, c, "C04/inmemory/insert", "InsertLogs failed: %v", err)
					return
				}
				fold.Apply(cl, i)
			}
			if prev == nil {
				return
			}
			c.Case("c:"+desc.String()+fmt.Sprint(fold.Snapshot()), hasRevert, []string{"c:inmemory"}, func() any {
				return map[string]any{"family": "inmemory", "logs": desc.String(), "balances": fold.Snapshot()}
			})
			for _, a := range []string{"world", "a", "b", "c"} {
				for _, as := range []string{"USD", "EUR/2"} {
					got, _ := store.GetBalance(ctx, a, as)
					if got.Cmp(fold.Balance(a, as)) != 0 {
						violation(rt, c, "C04/inmemory/balance", "InMemoryStore balance of %s/%s is %v, replaying the log gives %v", a, as, got, fold.Balance(a, as))
						return
					}
				}
			}
			for id := int64(0); id < nextTx; id++ {
				tx, err := store.GetTransaction(ctx, big.NewInt(id))
				if err != nil {
					violation(rt, c, "C04/inmemory/get-transaction", "transaction %d not found: %v", id, err)
					return
				}
				if tx.Reverted != fold.Txs[fmt.Sprint(id)].Reverted {
					violation(rt, c, "C04/inmemory/reverted-flag", "transaction %d reverted=%v, the log says %v", id, tx.Reverted, fold.Txs[fmt.Sprint(id)].Reverted)
					return
				}
			}
			if last, _ := store.GetLastLog(ctx); last == nil || last.ID.Cmp(prev.ID) != 0 {
				violation(rt, c, "C04/inmemory/last-log", "GetLastLog does not return the last inserted log")
				return
			}
			if nextTx > 0 {
				lt, err := store.GetLastTransaction(ctx)
				if err != nil || lt.ID.Int64() != nextTx-1 {
					violation(rt, c, "C04/inmemory/last-transaction", "GetLastTransaction = %v, %v; expected id %d", lt, err, nextTx-1)
					return
				}
			}
			for k, want := range keys {
				got, err := store.ReadLogWithIdempotencyKey(ctx, k)
				if err != nil || got.ID.Cmp(want.ID) != 0 {
					violation(rt, c, "C04/inmemory/idempotency-key", "lookup of key %s gives %v, %v", k, got, err)
					return
				}
			}
			for r, id := range refs {
				got, err := store.GetTransactionByReference(ctx, r)
				if err != nil || got.ID.Int64() != id {
					violation(rt, c, "C04/inmemory/reference", "lookup of reference %s gives %v, %v", r, got, err)
					return
				}
			}
		}
	})
}

// c04Match is the documented meaning of an address pattern: exact address, or, when a
// segment is empty, same number of segments and equality on the non-empty ones.
func c04Match(pattern, addr string) bool {
	ps, as := strings.Split(pattern, ":"), strings.Split(addr, ":")
	wild := false
	for _, p := range ps {
		if p == "" {
			wild = true
		}
	}
	if !wild {
		return pattern == addr
	}
	if len(ps) != len(as) {
		return false
	}
	for i, p := range ps {
		if p != "" && p != as[i] {
			return false
		}
	}
	return true
}

type c04AddrF struct {
	qb   query.Builder
	eval func(addr string) bool
	desc string
}

func c04AddrFilter(t *rapid.T, depth int) c04AddrF {
	kind := "match"
	if depth < 2 {
		kind = rapid.SampledFrom([]string{"match", "match", "and", "or", "not"}).Draw(t, "aggShape")
	}
	switch kind {
	case "and", "or":
		a, b := c04AddrFilter(t, depth+1), c04AddrFilter(t, depth+1)
		if kind == "and" {
			return c04AddrF{query.And(a.qb, b.qb), func(x string) bool { return a.eval(x) && b.eval(x) }, "(" + a.desc + " and " + b.desc + ")"}
		}
		return c04AddrF{query.Or(a.qb, b.qb), func(x string) bool { return a.eval(x) || b.eval(x) }, "(" + a.desc + " or " + b.desc + ")"}
	case "not":
		a := c04AddrFilter(t, depth+1)
		return c04AddrF{query.Not(a.qb), func(x string) bool { return !a.eval(x) }, "not " + a.desc}
	}
	pat := rapid.SampledFrom([]string{"users:1", "users:2", "users:", ":1", "bank", "world", ":", "users:1:x", "::"}).Draw(t, "aggPattern")
	return c04AddrF{query.Match("address", pat), func(x string) bool { return c04Match(pat, x) }, "address~" + pat}
}

// c04Aggregated: GetAggregatedBalances over a Go model of the moves table (two ledgers in one
// bucket, insertion dates != effective dates) against the harness fold of the log.
func c04Aggregated(rt *rapid.T, c *evid.Collector) {
	accs := []string{"world", "users:1", "users:2", "bank", "users:1:x"}
	assets := []string{"USD", "EUR/2"}
	base := time.Date(2024, 1, 1, 0, 0, 0, 0, time.UTC)
	type txn struct {
		ledger   string
		inserted time.Time
		ps       []ledger.Posting
	}
	var txs []txn
	eng := &sqlrec.MovesEngine{}
	vols := map[string][2]*big.Int{} // ledger|account|asset -> running in/out
	n := rapid.IntRange(1, 10).Draw(rt, "aggTxs")
	seq := 0
	var desc strings.Builder
	for i := 0; i < n; i++ {
		l := "l1"
		if rapid.IntRange(0, 3).Draw(rt, "otherLedger") == 0 {
			l = "l2"
		}
		ins := base.Add(time.Duration(i) * time.Hour)
		eff := base.Add(time.Duration(rapid.IntRange(-20, 20).Draw(rt, "effOffset")) * time.Hour)
		np := rapid.IntRange(1, 3).Draw(rt, "aggNP")
		var ps []ledger.Posting
		for j := 0; j < np; j++ {
			p := ledger.NewPosting(rapid.SampledFrom(accs).Draw(rt, "aggSrc"), rapid.SampledFrom(accs[1:]).Draw(rt, "aggDst"), rapid.SampledFrom(assets).Draw(rt, "aggAsset"), big.NewInt(int64(rapid.IntRange(0, 100).Draw(rt, "aggAmt"))))
			ps = append(ps, p)
			for side, acc := range []string{p.Source, p.Destination} {
				k := l + "|" + acc + "|" + p.Asset
				v, ok := vols[k]
				if !ok {
					v = [2]*big.Int{new(big.Int), new(big.Int)}
				}
				in, out := new(big.Int).Set(v[0]), new(big.Int).Set(v[1])
				if side == 0 {
					out.Add(out, p.Amount)
				} else {
					in.Add(in, p.Amount)
				}
				vols[k] = [2]*big.Int{in, out}
				seq++
				eng.Moves = append(eng.Moves, sqlrec.Move{Ledger: l, Seq: seq, Account: acc, Asset: p.Asset, InsertionDate: ins, EffectiveDate: eff, PostInputs: in, PostOutputs: out})
			}
			fmt.Fprintf(&desc, "%s@%d/eff%+d:%s>%s %s %v;", l, i, int(eff.Sub(base).Hours()), p.Source, p.Destination, p.Asset, p.Amount)
		}
		txs = append(txs, txn{l, ins, ps})
	}
	var pit *ledger.Time
	pitDesc := "none"
	if rapid.IntRange(0, 3).Draw(rt, "aggPIT") > 0 {
		h := rapid.IntRange(-1, n).Draw(rt, "aggPITHour")
		t0 := ledger.Time{Time: base.Add(time.Duration(h)*time.Hour + 30*time.Minute)}
		pit = &t0
		pitDesc = fmt.Sprintf("h%d.5", h)
	}
	var f *c04AddrF
	if rapid.Bool().Draw(rt, "aggFiltered") {
		x := c04AddrFilter(rt, 0)
		f = &x
	}
	rec := &sqlrec.Recorder{Answer: eng.Answer}
	db := sqlrec.NewDB(rec)
	defer db.Close()
	store := ledgerstore.NewStoreForVerif(db, "bucket", "l1")
	opts := ledgerstore.NewPaginatedQueryOptions(ledgerstore.PITFilter{PIT: pit})
	fdesc := "none"
	if f != nil {
		opts = opts.WithQueryBuilder(f.qb)
		fdesc = f.desc
	}
	var got ledger.BalancesByAssets
	var err error
	pn := safely(func() {
		got, err = store.GetAggregatedBalances(context.Background(), ledgerstore.NewGetAggregatedBalancesQuery(opts))
	})
	mixed := false
	for _, m := range eng.Moves {
		if !m.InsertionDate.Equal(m.EffectiveDate) {
			mixed = true
		}
	}
	c.Case("d:"+desc.String()+"|pit="+pitDesc+"|"+fdesc, pit != nil || f != nil, []string{"d:aggregated", "d:pit=" + fmt.Sprint(pit != nil), "d:filter=" + fmt.Sprint(f != nil)}, func() any {
		return map[string]any{"family": "aggregated", "log": desc.String(), "pit": pitDesc, "filter": fdesc, "statements": rec.Statements()}
	})
	_ = mixed
	if len(eng.Unhandled) > 0 {
		harnessError(rt, "moves engine cannot serve: %s", clip(eng.Unhandled[0]))
	}
	if pn != nil || err != nil {
		violation(rt, c, "C04/aggregated/error", "GetAggregatedBalances failed: %v %v", pn, err)
		return
	}
	want := map[string]*big.Int{}
	for _, tx := range txs {
		if tx.ledger != "l1" || (pit != nil && tx.inserted.After(pit.Time)) {
			continue
		}
		for _, p := range tx.ps {
			for side, acc := range []string{p.Source, p.Destination} {
				if f != nil && !f.eval(acc) {
					continue
				}
				if want[p.Asset] == nil {
					want[p.Asset] = new(big.Int)
				}
				if side == 0 {
					want[p.Asset].Sub(want[p.Asset], p.Amount)
				} else {
					want[p.Asset].Add(want[p.Asset], p.Amount)
				}
			}
		}
	}
	for _, as := range assets {
		g, w := got[as], want[as]
		if g == nil {
			g = new(big.Int)
		}
		if w == nil {
			w = new(big.Int)
		}
		if g.Cmp(w) != 0 {
			if !c.IsKnown("C04/aggregated/balance") {
				rt.Logf("log: %s\npit: %s filter: %s\nstatement: %s", desc.String(), pitDesc, fdesc, clip(strings.Join(rec.Statements(), "\n")))
				violation(rt, c, "C04/aggregated/balance", "aggregated %s balance is %v, replaying the entries of ledger l1 written up to the instant (filter %s) gives %v", as, g, fdesc, w)
			}
			return
		}
	}
}
