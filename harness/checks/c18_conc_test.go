package checks

// C18, concurrent family: several clients send bulk requests at the same time
// (real parallelism: the handlers have no blocking point a scheduler could own).
// Every answer must describe its own request, position by position.

import (
	"encoding/json"
	"fmt"
	"net/http"
	"strings"
	"sync"

	"github.com/formancehq/ledger/verifharness/evid"
	"github.com/formancehq/ledger/verifharness/httpsim"
	"pgregory.net/rapid"
)

type c18Client struct {
	body   string
	marks  []string
	fails  []bool
	cont   bool
	ledger []string
}

func c18Concurrent(rt *rapid.T, c *evid.Collector) {
	nClients := rapid.IntRange(2, 8).Draw(rt, "clients")
	rounds := rapid.IntRange(1, 6).Draw(rt, "rounds")
	be := httpsim.NewFakeBackend()
	clients := make([]*c18Client, nClients)
	total := 0
	for k := range clients {
		cl := &c18Client{cont: rapid.Bool().Draw(rt, "cont")}
		n := rapid.IntRange(1, 40).Draw(rt, "cn")
		var parts []string
		for i := 0; i < n; i++ {
			mark := fmt.Sprint((k+1)*100000 + i)
			cl.marks = append(cl.marks, mark)
			cl.fails = append(cl.fails, rapid.IntRange(0, 9).Draw(rt, "cfail") == 0)
			parts = append(parts, `{"action":"CREATE_TRANSACTION","data":{"postings":[{"source":"world","destination":"a","asset":"USD","amount":1}],"metadata":{"el":"`+mark+`"}}}`)
		}
		cl.body = "[" + strings.Join(parts, ",") + "]"
		for r := 0; r < rounds; r++ {
			name := fmt.Sprintf("c%dr%d", k, r)
			fails := cl.fails
			fl := &httpsim.FakeLedger{Name: name}
			// the fake fails the call that carries the marker of a failing element
			fl.FailCall = func(call httpsim.Call) string {
				m := callMarker(call)
				for i, mk := range cl.marks {
					if mk == m && fails[i] {
						return "INSUFFICIENT_FUND"
					}
				}
				return ""
			}
			be.Ledgers[name] = fl
			cl.ledger = append(cl.ledger, name)
		}
		clients[k] = cl
		total += n
	}
	router := httpsim.NewRouter(be, false)
	type answer struct {
		status int
		body   string
	}
	answers := make([][]answer, nClients)
	start := make(chan struct{})
	var wg sync.WaitGroup
	for k, cl := range clients {
		answers[k] = make([]answer, rounds)
		wg.Add(1)
		go func(k int, cl *c18Client) {
			defer wg.Done()
			<-start
			for r := 0; r < rounds; r++ {
				target := "/api/ledger/v2/" + cl.ledger[r] + "/_bulk"
				if cl.cont {
					target += "?continueOnFailure=true"
				}
				rec := httpsim.Serve(router, http.MethodPost, target, map[string]string{"Content-Type": "application/json"}, cl.body)
				answers[k][r] = answer{rec.Code, rec.Body.String()}
			}
		}(k, cl)
	}
	close(start)
	wg.Wait()
	c.Case(evid.Key("concurrent", nClients, rounds, total), nClients >= 3 && total >= 30, []string{"family:concurrent", fmt.Sprintf("clients:%d", nClients)}, func() any {
		return map[string]any{"family": "concurrent", "clients": nClients, "rounds": rounds, "elementsPerRound": total}
	})
	for k, cl := range clients {
		// positional model of this client's request
		var want []int
		anyFailed := false
		for i := range cl.marks {
			want = append(want, i)
			if cl.fails[i] {
				anyFailed = true
				if !cl.cont {
					break
				}
			}
		}
		for r := 0; r < rounds; r++ {
			a := answers[k][r]
			where := fmt.Sprintf("client %d of %d, round %d (%d elements, continueOnFailure=%v)", k, nClients, r, len(cl.marks), cl.cont)
			var resp struct {
				Data []struct {
					ResponseType string `json:"responseType"`
					ErrorCode    string `json:"errorCode"`
					Data         struct {
						Metadata map[string]string `json:"metadata"`
					} `json:"data"`
				} `json:"data"`
			}
			if err := json.Unmarshal([]byte(a.body), &resp); err != nil {
				violation(rt, c, "C18/concurrent/response-undecodable", "%s: %v: %s", where, err, clip(a.body))
				return
			}
			if len(resp.Data) != len(want) {
				violation(rt, c, "C18/concurrent/result-count", "%s: %d results for %d processed elements: %s", where, len(resp.Data), len(want), clip(a.body))
				return
			}
			for pi, i := range want {
				res := resp.Data[pi]
				if cl.fails[i] {
					if res.ResponseType != "ERROR" {
						violation(rt, c, "C18/concurrent/position", "%s: result %d is %s %v, element %d failed", where, pi, res.ResponseType, res.Data.Metadata, i)
						return
					}
					continue
				}
				if res.ResponseType != "CREATE_TRANSACTION" || res.Data.Metadata["el"] != cl.marks[i] {
					violation(rt, c, "C18/concurrent/position", "%s: result %d is %s carrying marker %q (error %q), element %d carries marker %s", where, pi, res.ResponseType, res.Data.Metadata["el"], res.ErrorCode, i, cl.marks[i])
					return
				}
			}
			if (a.status >= 400) != anyFailed {
				violation(rt, c, "C18/concurrent/status", "%s: status %d, some element failed: %v", where, a.status, anyFailed)
				return
			}
		}
		// and the backend saw exactly this client's processed elements, in order, per round
		for r := 0; r < rounds; r++ {
			fl := be.Ledgers[cl.ledger[r]]
			if len(fl.Calls) != len(want) {
				violation(rt, c, "C18/concurrent/executed-set", "client %d round %d: backend received %d calls for %d processed elements", k, r, len(fl.Calls), len(want))
				return
			}
			for ci, call := range fl.Calls {
				if callMarker(call) != cl.marks[want[ci]] {
					violation(rt, c, "C18/concurrent/order", "client %d round %d: call %d carries marker %s, expected %s", k, r, ci, callMarker(call), cl.marks[want[ci]])
					return
				}
			}
		}
	}
}
