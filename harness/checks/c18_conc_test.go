package checks

// C18, concurrent family: several clients send bulk requests at the same time
// (real parallelism: the handlers have no blocking point a scheduler could own).
// Every answer must describe its own request, position by position.

import (
	"context"
	"encoding/json"
	"fmt"
	"net/http"
	"runtime"
	"strings"
	"sync"

	"github.com/formancehq/ledger/verifharness/evid"
	"github.com/formancehq/ledger/verifharness/hookctx"
	"github.com/formancehq/ledger/verifharness/httpsim"
	"pgregory.net/rapid"
)

type c18Client struct {
	body   string
	marks  []string
	fails  []bool
	cont   bool
	ledger []string
}

func c18Concurrent(rt *rapid.T, c *evid.Collector) {
	nClients := rapid.IntRange(2, 8).Draw(rt, "clients")
	rounds := rapid.IntRange(1, 6).Draw(rt, "rounds")
	be := httpsim.NewFakeBackend()
	clients := make([]*c18Client, nClients)
	total := 0
	for k := range clients {
		cl := &c18Client{cont: rapid.Bool().Draw(rt, "cont")}
		n := rapid.IntRange(1, 40).Draw(rt, "cn")
		var parts []string
		for i := 0; i < n; i++ {
			mark := fmt.Sprint((k+1)*100000 + i)
			cl.marks = append(cl.marks, mark)
			cl.fails = append(cl.fails, rapid.IntRange(0, 9).Draw(rt, "cfail") == 0)
			parts = append(parts, `{"action":"CREATE_TRANSACTION","data":{"postings":[{"source":"world","destination":"a","asset":"USD","amount":1}],"metadata":{"el":"`+mark+`"}}}`)
		}
		cl.body = "[" + strings.Join(parts, ",") + "]"
		for r := 0; r < rounds; r++ {
			name := fmt.Sprintf("c%dr%d", k, r)
			fails := cl.fails
			fl := &httpsim.FakeLedger{Name: name}
			// the fake fails the call that carries the marker of a failing element
			fl.FailCall = func(call httpsim.Call) string {
				m := callMarker(call)
				for i, mk := range cl.marks {
					if mk == m && fails[i] {
						return "INSUFFICIENT_FUND"
					}
				}
				return ""
			}
			be.Ledgers[name] = fl
			cl.ledger = append(cl.ledger, name)
		}
		clients[k] = cl
		total += n
	}
	router := httpsim.NewRouter(be, false)
	type answer struct {
		status int
		body   string
	}
	answers := make([][]answer, nClients)
	start := make(chan struct{})
	var wg sync.WaitGroup
	for k, cl := range clients {
		answers[k] = make([]answer, rounds)
		wg.Add(1)
		go func(k int, cl *c18Client) {
			defer wg.Done()
			<-start
			for r := 0; r < rounds; r++ {
				target := "/api/ledger/v2/" + cl.ledger[r] + "/_bulk"
				if cl.cont {
					target += "?continueOnFailure=true"
				}
				rec := httpsim.Serve(router, http.MethodPost, target, map[string]string{"Content-Type": "application/json"}, cl.body)
				answers[k][r] = answer{rec.Code, rec.Body.String()}
			}
		}(k, cl)
	}
	close(start)
	wg.Wait()
	c.Case(evid.Key("concurrent", nClients, rounds, total), nClients >= 3 && total >= 30, []string{"family:concurrent", fmt.Sprintf("clients:%d", nClients)}, func() any {
		return map[string]any{"family": "concurrent", "clients": nClients, "rounds": rounds, "elementsPerRound": total}
	})
	for k, cl := range clients {
		// positional model of this client's request
		var want []int
		anyFailed := false
		for i := range cl.marks {
			want = append(want, i)
			if cl.fails[i] {
				anyFailed = true
				if !cl.cont {
					break
				}
			}
		}
		for r := 0; r < rounds; r++ {
			a := answers[k][r]
			where := fmt.Sprintf("client %d of %d, round %d (%d elements, continueOnFailure=%v)", k, nClients, r, len(cl.marks), cl.cont)
			var resp struct {
				Data []struct {
					ResponseType string `json:"responseType"`
					ErrorCode    string `json:"errorCode"`
					Data         struct {
						Metadata map[string]string `json:"metadata"`
					} `json:"data"`
				} `json:"data"`
			}
			if err := json.Unmarshal([]byte(a.body), &resp); err != nil {
				violation(rt, c, "C18/concurrent/response-undecodable", "%s: %v: %s", where, err, clip(a.body))
				return
			}
			if len(resp.Data) != len(want) {
				violation(rt, c, "C18/concurrent/result-count", "%s: %d results for %d processed elements: %s", where, len(resp.Data), len(want), clip(a.body))
				return
			}
			for pi, i := range want {
				res := resp.Data[pi]
				if cl.fails[i] {
					if res.ResponseType != "ERROR" {
						violation(rt, c, "C18/concurrent/position", "%s: result %d is %s %v, element %d failed", where, pi, res.ResponseType, res.Data.Metadata, i)
						return
					}
					continue
				}
				if res.ResponseType != "CREATE_TRANSACTION" || res.Data.Metadata["el"] != cl.marks[i] {
					violation(rt, c, "C18/concurrent/position", "%s: result %d is %s carrying marker %q (error %q), element %d carries marker %s", where, pi, res.ResponseType, res.Data.Metadata["el"], res.ErrorCode, i, cl.marks[i])
					return
				}
			}
			if (a.status >= 400) != anyFailed {
				violation(rt, c, "C18/concurrent/status", "%s: status %d, some element failed: %v", where, a.status, anyFailed)
				return
			}
		}
		// and the backend saw exactly this client's processed elements, in order, per round
		for r := 0; r < rounds; r++ {
			fl := be.Ledgers[cl.ledger[r]]
			if len(fl.Calls) != len(want) {
				violation(rt, c, "C18/concurrent/executed-set", "client %d round %d: backend received %d calls for %d processed elements", k, r, len(fl.Calls), len(want))
				return
			}
			for ci, call := range fl.Calls {
				if callMarker(call) != cl.marks[want[ci]] {
					violation(rt, c, "C18/concurrent/order", "client %d round %d: call %d carries marker %s, expected %s", k, r, ci, callMarker(call), cl.marks[want[ci]])
					return
				}
			}
		}
	}
}

// ---------------------------------------------------------------------------
// scheduled family: the harness owns the order in which bulk requests are executed and answered.
// A request parks at the verifhook point "bulk.processed" (its elements have been executed, its
// response is not written yet); other requests are started, parked and released around it in a
// generated order. The Go runtime is restricted to one processor for the duration of the case so
// that "the next request" really is the next user of anything the previous one gave back.

type c18Parked struct {
	parked  chan struct{}
	release chan struct{}
}

func (p *c18Parked) Yield(ctx context.Context, point string) {
	if point == "bulk.processed" {
		close(p.parked)
		<-p.release
	}
}
func (p *c18Parked) Await(context.Context, string, <-chan struct{})  {}
func (p *c18Parked) BeforeLock(context.Context, string, *sync.Mutex) {}
func (p *c18Parked) Expose(context.Context, string, any)             {}

func c18Scheduled(rt *rapid.T, c *evid.Collector) {
	hookctx.Install()
	defer runtime.GOMAXPROCS(runtime.GOMAXPROCS(1))
	nReq := rapid.IntRange(2, 5).Draw(rt, "schedRequests")
	be := httpsim.NewFakeBackend()
	type req struct {
		cl     *c18Client
		target string
		hook   *c18Parked
		done   chan struct{}
		status int
		body   string
	}
	reqs := make([]*req, nReq)
	for k := range reqs {
		cl := &c18Client{cont: rapid.Bool().Draw(rt, "schedCont")}
		n := rapid.IntRange(1, 6).Draw(rt, "schedN")
		var parts []string
		for i := 0; i < n; i++ {
			mark := fmt.Sprint((k+1)*100000 + i)
			cl.marks = append(cl.marks, mark)
			cl.fails = append(cl.fails, rapid.IntRange(0, 5).Draw(rt, "schedFail") == 0)
			parts = append(parts, `{"action":"CREATE_TRANSACTION","data":{"postings":[{"source":"world","destination":"a","asset":"USD","amount":1}],"metadata":{"el":"`+mark+`"}}}`)
		}
		cl.body = "[" + strings.Join(parts, ",") + "]"
		name := fmt.Sprintf("s%d", k)
		fl := &httpsim.FakeLedger{Name: name}
		marks, fails := cl.marks, cl.fails
		fl.FailCall = func(call httpsim.Call) string {
			m := callMarker(call)
			for i, mk := range marks {
				if mk == m && fails[i] {
					return "INSUFFICIENT_FUND"
				}
			}
			return ""
		}
		be.Ledgers[name] = fl
		target := "/api/ledger/v2/" + name + "/_bulk"
		if cl.cont {
			target += "?continueOnFailure=true"
		}
		reqs[k] = &req{cl: cl, target: target, hook: &c18Parked{parked: make(chan struct{}), release: make(chan struct{})}, done: make(chan struct{})}
	}
	router := httpsim.NewRouter(be, false)
	// the order: a shuffle of start(k) / release(k) with start before release
	type act struct {
		start bool
		k     int
	}
	var order []act
	started, released := 0, map[int]bool{}
	var open []int
	for len(released) < nReq {
		canStart := started < nReq
		if canStart && (len(open) == 0 || rapid.Bool().Draw(rt, "schedStartNext")) {
			order = append(order, act{true, started})
			open = append(open, started)
			started++
			continue
		}
		i := rapid.IntRange(0, len(open)-1).Draw(rt, "schedRelease")
		k := open[i]
		open = append(open[:i], open[i+1:]...)
		order = append(order, act{false, k})
		released[k] = true
	}
	var desc []string
	overlap := false
	for _, a := range order {
		r := reqs[a.k]
		if a.start {
			desc = append(desc, fmt.Sprintf("start%d", a.k))
			go func() {
				defer close(r.done)
				rec := httpsim.ServeCtx(hookctx.With(context.Background(), r.hook), router, http.MethodPost, r.target, map[string]string{"Content-Type": "application/json"}, r.cl.body)
				r.status, r.body = rec.Code, rec.Body.String()
			}()
			select {
			case <-r.hook.parked:
			case <-r.done:
			}
			continue
		}
		desc = append(desc, fmt.Sprintf("answer%d", a.k))
		for _, o := range reqs {
			if o != r {
				select {
				case <-o.hook.parked:
					select {
					case <-o.done:
					default:
						overlap = true
					}
				default:
				}
			}
		}
		close(r.hook.release)
		<-r.done
	}
	c.Case(evid.Key("scheduled", strings.Join(desc, ","), nReq), overlap, []string{"family:scheduled", fmt.Sprintf("requests:%d", nReq)}, func() any {
		return map[string]any{"family": "scheduled", "order": desc}
	})
	for k, r := range reqs {
		cl := r.cl
		var want []int
		anyFailed := false
		for i := range cl.marks {
			want = append(want, i)
			if cl.fails[i] {
				anyFailed = true
				if !cl.cont {
					break
				}
			}
		}
		where := fmt.Sprintf("request %d of %d (order %s; %d elements, continueOnFailure=%v)", k, nReq, strings.Join(desc, ","), len(cl.marks), cl.cont)
		var resp struct {
			Data []struct {
				ResponseType string `json:"responseType"`
				ErrorCode    string `json:"errorCode"`
				Data         struct {
					Metadata map[string]string `json:"metadata"`
				} `json:"data"`
			} `json:"data"`
		}
		if err := json.Unmarshal([]byte(r.body), &resp); err != nil {
			violation(rt, c, "C18/scheduled/response-undecodable", "%s: %v: %s", where, err, clip(r.body))
			return
		}
		if len(resp.Data) != len(want) {
			violation(rt, c, "C18/scheduled/result-count", "%s: %d results for %d processed elements: %s", where, len(resp.Data), len(want), clip(r.body))
			return
		}
		for pi, i := range want {
			res := resp.Data[pi]
			if cl.fails[i] {
				if res.ResponseType != "ERROR" {
					violation(rt, c, "C18/scheduled/position", "%s: result %d is %s %v, element %d failed", where, pi, res.ResponseType, res.Data.Metadata, i)
					return
				}
				continue
			}
			if res.ResponseType != "CREATE_TRANSACTION" || res.Data.Metadata["el"] != cl.marks[i] {
				violation(rt, c, "C18/scheduled/position", "%s: result %d is %s carrying marker %q (error %q), element %d carries marker %s", where, pi, res.ResponseType, res.Data.Metadata["el"], res.ErrorCode, i, cl.marks[i])
				return
			}
		}
		if (r.status >= 400) != anyFailed {
			violation(rt, c, "C18/scheduled/status", "%s: status %d, some element failed: %v", where, r.status, anyFailed)
			return
		}
	}
}
