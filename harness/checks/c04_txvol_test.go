package checks

// C04 (e): transactions read back with expand=volumes / expand=effectiveVolumes.
// PostgreSQL delivers the post-commit figures; the store derives the pre-commit
// ones in Go. The row a replay of the log defines is served through the recording
// driver; what the store reports must be the replay before and after the transaction.

import (
	"context"
	"database/sql/driver"
	"encoding/json"
	"fmt"
	"math/big"
	"sort"
	"strings"
	"time"

	ledger "github.com/formancehq/ledger/internal"
	"github.com/formancehq/ledger/internal/storage/ledgerstore"
	"github.com/formancehq/ledger/verifharness/evid"
	"github.com/formancehq/ledger/verifharness/gen"
	"github.com/formancehq/ledger/verifharness/sqlrec"
	"github.com/formancehq/stack/libs/go-libs/api"
	"pgregory.net/rapid"
)

type c04Vols map[string][2]*big.Int // account/asset -> in, out

func (v c04Vols) get(k string) [2]*big.Int {
	if x, ok := v[k]; ok {
		return x
	}
	return [2]*big.Int{new(big.Int), new(big.Int)}
}

func (v c04Vols) apply(ps []ledger.Posting) {
	for _, p := range ps {
		s, d := v.get(p.Source+"/"+p.Asset), v.get(p.Destination+"/"+p.Asset)
		v[p.Source+"/"+p.Asset] = [2]*big.Int{s[0], new(big.Int).Add(s[1], p.Amount)}
		d = v.get(p.Destination + "/" + p.Asset) // source may be the destination
		v[p.Destination+"/"+p.Asset] = [2]*big.Int{new(big.Int).Add(d[0], p.Amount), d[1]}
	}
}

// touched renders the volumes of the accounts and assets named by ps.
func (v c04Vols) touched(ps []ledger.Posting) map[string]string {
	out := map[string]string{}
	for _, p := range ps {
		for _, a := range []string{p.Source, p.Destination} {
			x := v.get(a + "/" + p.Asset)
			out[a+"/"+p.Asset] = "in=" + x[0].String() + " out=" + x[1].String()
		}
	}
	return out
}

func (v c04Vols) jsonFor(ps []ledger.Posting) []byte {
	out := map[string]map[string]map[string]json.Number{}
	for _, p := range ps {
		for _, a := range []string{p.Source, p.Destination} {
			x := v.get(a + "/" + p.Asset)
			if out[a] == nil {
				out[a] = map[string]map[string]json.Number{}
			}
			out[a][p.Asset] = map[string]json.Number{"input": json.Number(x[0].String()), "output": json.Number(x[1].String())}
		}
	}
	b, _ := json.Marshal(out)
	return b
}

func c04Flat(v ledger.AccountsAssetsVolumes) map[string]string {
	if v == nil {
		return nil
	}
	out := map[string]string{}
	for a, m := range v {
		for as, x := range m {
			out[a+"/"+as] = "in=" + x.Input.String() + " out=" + x.Output.String()
		}
	}
	return out
}

func c04MapString(m map[string]string) string {
	ks := make([]string, 0, len(m))
	for k := range m {
		ks = append(ks, k)
	}
	sort.Strings(ks)
	var b strings.Builder
	for _, k := range ks {
		fmt.Fprintf(&b, "%s{%s} ", k, m[k])
	}
	return b.String()
}

func c04TxVolumes(rt *rapid.T, c *evid.Collector) {
	accs := []string{"world", "bank", "alice", "bob", "fees:eu"}
	assets := []string{"USD", "EUR/2"}
	base := time.Date(2024, 3, 1, 0, 0, 0, 0, time.UTC)
	type txn struct {
		ps      []ledger.Posting
		eff     time.Time
		pre     map[string]string // replay before, by insertion order
		post    map[string]string
		preEff  map[string]string // replay before, by effective date
		postEff map[string]string
		row     []driver.Value
	}
	n := rapid.IntRange(1, 6).Draw(rt, "tvTxs")
	txs := make([]*txn, n)
	var desc strings.Builder
	for i := range txs {
		np := rapid.IntRange(1, 5).Draw(rt, "tvNP")
		tx := &txn{eff: base.Add(time.Duration(rapid.IntRange(-10, 10).Draw(rt, "tvEff")) * time.Hour)}
		for j := 0; j < np; j++ {
			amt := big.NewInt(int64(rapid.IntRange(0, 100).Draw(rt, "tvAmt")))
			if rapid.IntRange(0, 9).Draw(rt, "tvBig") == 0 {
				amt = new(big.Int).Set(gen.Amount().Draw(rt, "tvBigAmt"))
			}
			p := ledger.NewPosting(rapid.SampledFrom(accs).Draw(rt, "tvSrc"), rapid.SampledFrom(accs).Draw(rt, "tvDst"), rapid.SampledFrom(assets).Draw(rt, "tvAsset"), amt)
			if j > 0 && rapid.IntRange(0, 2).Draw(rt, "tvChain") == 0 {
				// through an intermediary: spend what the previous posting delivered
				p.Source, p.Asset = tx.ps[j-1].Destination, tx.ps[j-1].Asset
			}
			tx.ps = append(tx.ps, p)
			fmt.Fprintf(&desc, "%d/eff%+d:%s>%s %s %v;", i, int(tx.eff.Sub(base).Hours()), p.Source, p.Destination, p.Asset, p.Amount)
		}
		txs[i] = tx
	}
	// replay by insertion order
	run := c04Vols{}
	for _, tx := range txs {
		tx.pre = run.touched(tx.ps)
		run.apply(tx.ps)
		tx.post = run.touched(tx.ps)
	}
	// replay by effective date (ties: insertion order); post-commit effective volumes of a transaction are
	// the volumes once every transaction dated up to it (itself included, later-dated ones excluded) is applied
	for i, tx := range txs {
		order := make([]int, 0, n)
		for j, o := range txs {
			if o.eff.Before(tx.eff) || (o.eff.Equal(tx.eff) && j < i) {
				order = append(order, j)
			}
		}
		eff := c04Vols{}
		for _, j := range order {
			eff.apply(txs[j].ps)
		}
		tx.preEff = eff.touched(tx.ps)
		effJSON := func() []byte { eff.apply(tx.ps); return eff.jsonFor(tx.ps) }()
		tx.postEff = eff.touched(tx.ps)
		ins := c04Vols{}
		for j := 0; j <= i; j++ {
			ins.apply(txs[j].ps)
		}
		psJSON, _ := json.Marshal(tx.ps)
		tx.row = []driver.Value{fmt.Sprint(i), tx.eff, nil, psJSON, []byte(`{}`), ins.jsonFor(tx.ps), effJSON}
	}
	expandV, expandE := rapid.Bool().Draw(rt, "tvExpandVolumes"), rapid.Bool().Draw(rt, "tvExpandEffective")
	if !expandV && !expandE {
		expandV = true
	}
	list := rapid.Bool().Draw(rt, "tvList")
	target := rapid.IntRange(0, n-1).Draw(rt, "tvTarget")
	cols := []string{"id", "timestamp", "reference", "postings", "metadata"}
	pick := func(r []driver.Value) []driver.Value {
		out := append([]driver.Value(nil), r[:5]...)
		if expandV {
			out = append(out, r[5])
		}
		if expandE {
			out = append(out, r[6])
		}
		return out
	}
	if expandV {
		cols = append(cols, "post_commit_volumes")
	}
	if expandE {
		cols = append(cols, "post_commit_effective_volumes")
	}
	rec := &sqlrec.Recorder{}
	rec.Answer = func(sql string) ([]string, [][]driver.Value, error) {
		low := strings.ToLower(sql)
		if expandV != strings.Contains(low, "get_aggregated_volumes_for_transaction") || expandE != strings.Contains(low, "get_aggregated_effective_volumes_for_transaction") {
			return nil, nil, fmt.Errorf("the statement does not ask for the expansions requested: %s", sql)
		}
		var rows [][]driver.Value
		if list {
			for i := n - 1; i >= 0; i-- { // ORDER BY id DESC
				rows = append(rows, pick(txs[i].row))
			}
		} else {
			rows = append(rows, pick(txs[target].row))
		}
		return cols, rows, nil
	}
	db := sqlrec.NewDB(rec)
	defer db.Close()
	store := ledgerstore.NewStoreForVerif(db, "bucket", "l1")
	shared := false
	for _, tx := range txs {
		seen := map[string]bool{}
		for _, p := range tx.ps {
			for _, k := range []string{p.Source + "/" + p.Asset, p.Destination + "/" + p.Asset} {
				if seen[k] {
					shared = true
				}
				seen[k] = true
			}
		}
	}
	mode := "one"
	if list {
		mode = "list"
	}
	c.Case(fmt.Sprintf("e:%s|%s|%v%v|%d", desc.String(), mode, expandV, expandE, target), shared, []string{"e:tx-volumes", "e:" + mode, fmt.Sprintf("e:volumes=%v,effective=%v", expandV, expandE)}, func() any {
		return map[string]any{"family": "tx-volumes", "log": desc.String(), "mode": mode, "expandVolumes": expandV, "expandEffectiveVolumes": expandE}
	})
	var got []ledger.ExpandedTransaction
	var err error
	pn := safely(func() {
		if list {
			q := ledgerstore.NewGetTransactionsQuery(ledgerstore.NewPaginatedQueryOptions(ledgerstore.PITFilterWithVolumes{ExpandVolumes: expandV, ExpandEffectiveVolumes: expandE}).WithPageSize(uint64(n + 1)))
			var cur *api.Cursor[ledger.ExpandedTransaction]
			cur, err = store.GetTransactions(context.Background(), q)
			if err == nil {
				got = cur.Data
			}
		} else {
			q := ledgerstore.NewGetTransactionQuery(big.NewInt(int64(target)))
			q.ExpandVolumes, q.ExpandEffectiveVolumes = expandV, expandE
			var one *ledger.ExpandedTransaction
			one, err = store.GetTransactionWithVolumes(context.Background(), q)
			if err == nil {
				got = []ledger.ExpandedTransaction{*one}
			}
		}
	})
	if pn != nil || err != nil {
		if err != nil && strings.Contains(err.Error(), "does not ask for the expansions") {
			violation(rt, c, "C04/tx-volumes/expansion-not-requested", "%v", err)
			return
		}
		violation(rt, c, "C04/tx-volumes/error", "reading %s failed: %v %v", mode, pn, err)
		return
	}
	fail := func(sig, format string, args ...any) {
		if c.IsKnown(sig) {
			return
		}
		rt.Logf("log: %s\nmode=%s expandVolumes=%v expandEffectiveVolumes=%v", desc.String(), mode, expandV, expandE)
		violation(rt, c, sig, format, args...)
	}
	want := []int{target}
	if list {
		want = want[:0]
		for i := n - 1; i >= 0; i-- {
			want = append(want, i)
		}
	}
	if len(got) != len(want) {
		fail("C04/tx-volumes/count", "%d transactions returned, %d expected", len(got), len(want))
		return
	}
	for k, i := range want {
		tx, g := txs[i], got[k]
		if g.ID == nil || g.ID.Int64() != int64(i) {
			fail("C04/tx-volumes/id", "position %d holds transaction %v, expected %d", k, g.ID, i)
			return
		}
		type cmp struct {
			name string
			have ledger.AccountsAssetsVolumes
			want map[string]string
			on   bool
		}
		for _, x := range []cmp{
			{"pre-commit volumes", g.PreCommitVolumes, tx.pre, expandV},
			{"post-commit volumes", g.PostCommitVolumes, tx.post, expandV},
			{"pre-commit effective volumes", g.PreCommitEffectiveVolumes, tx.preEff, expandE},
			{"post-commit effective volumes", g.PostCommitEffectiveVolumes, tx.postEff, expandE},
		} {
			have := c04Flat(x.have)
			if !x.on {
				if len(have) != 0 {
					fail("C04/tx-volumes/unrequested", "transaction %d carries %s although the expansion was not requested", i, x.name)
					return
				}
				continue
			}
			if c04MapString(have) != c04MapString(x.want) {
				fail("C04/tx-volumes/"+strings.ReplaceAll(x.name, " ", "-"), "transaction %d: the store reports %s\n  %s\nreplaying the log gives\n  %s", i, x.name, c04MapString(have), c04MapString(x.want))
				return
			}
		}
	}
}
