package checks

// Shared driver for the Numscript properties (C01 C03 C08 C12): runs the real
// pipeline compile -> SetVarsFromJSON -> ResolveResources -> ResolveBalances
// -> vm.Run against a static store built from the generated environment.

import (
	"context"
	"fmt"
	"math/big"
	"sort"
	"strings"

	ledger "github.com/formancehq/ledger/internal"
	"github.com/formancehq/ledger/internal/machine"
	"github.com/formancehq/ledger/internal/machine/script/compiler"
	"github.com/formancehq/ledger/internal/machine/vm"
	"github.com/formancehq/ledger/internal/machine/vm/program"
	"github.com/formancehq/ledger/verifharness/numgen"
	"github.com/formancehq/stack/libs/go-libs/metadata"
)

type implResult struct {
	Class       string // ok | compile-reject | invalid-vars | insufficient-funds | rejected | panic
	Err         error
	Panic       any
	PanicStage  string
	Postings    []numgen.Posting
	TxMeta      map[string]string
	AccountMeta map[string]map[string]string
	Balances    map[string]map[string]*big.Int
}

func staticStore(env *numgen.Env) vm.StaticStore {
	st := vm.StaticStore{}
	get := func(acc string) *vm.AccountWithBalances {
		a, ok := st[acc]
		if !ok {
			a = &vm.AccountWithBalances{Account: ledger.Account{Address: acc, Metadata: metadata.Metadata{}}, Balances: map[string]*big.Int{}}
			st[acc] = a
		}
		return a
	}
	for acc, m := range env.Balances {
		for as, b := range m {
			get(acc).Balances[as] = new(big.Int).Set(b)
		}
	}
	for acc, m := range env.Meta {
		for k, v := range m {
			get(acc).Metadata[k] = v
		}
	}
	return st
}

type compileFn func(string) (*program.Program, error)

func runImpl(text string, env *numgen.Env, compile compileFn) (res implResult) {
	vars := map[string]string{}
	for k, v := range env.Vars {
		vars[k] = v
	}
	return runImplVars(text, env, compile, vars)
}

// runImplVars is runImpl with the variable map handed over as it is (the caller's own object).
func runImplVars(text string, env *numgen.Env, compile compileFn, vars map[string]string) (res implResult) {
	stage := "compile"
	defer func() {
		if p := recover(); p != nil {
			res = implResult{Class: "panic", Panic: p, PanicStage: stage}
		}
	}()
	if compile == nil {
		compile = compiler.Compile
	}
	prog, err := compile(text)
	if err != nil {
		return implResult{Class: "compile-reject", Err: err}
	}
	m := vm.NewMachine(*prog)
	m.Printer = func(c chan machine.Value) {
		for range c {
		}
	}
	stage = "vars"
	if err := m.SetVarsFromJSON(vars); err != nil {
		return implResult{Class: numgen.InvalidVars, Err: err}
	}
	store := staticStore(env)
	ctx := context.Background()
	stage = "resolve-resources"
	if _, _, err := m.ResolveResources(ctx, store); err != nil {
		return implResult{Class: numgen.Rejected, Err: err}
	}
	stage = "resolve-balances"
	if err := m.ResolveBalances(ctx, store); err != nil {
		return implResult{Class: numgen.Rejected, Err: err}
	}
	stage = "run"
	md := metadata.Metadata{}
	for k, v := range env.ReqMeta {
		md[k] = v
	}
	r, err := vm.Run(m, ledger.RunScript{Script: ledger.Script{Plain: text, Vars: vars}, Metadata: md})
	if err != nil {
		if machine.IsInsufficientFundError(err) {
			return implResult{Class: numgen.Insufficient, Err: err}
		}
		return implResult{Class: numgen.Rejected, Err: err}
	}
	out := implResult{Class: numgen.OK, TxMeta: map[string]string{}, AccountMeta: map[string]map[string]string{}, Balances: map[string]map[string]*big.Int{}}
	for _, p := range r.Postings {
		out.Postings = append(out.Postings, numgen.Posting{Source: p.Source, Destination: p.Destination, Asset: p.Asset, Amount: new(big.Int).Set(p.Amount)})
	}
	for k, v := range r.Metadata {
		out.TxMeta[k] = v
	}
	for a, md := range r.AccountMetadata {
		out.AccountMeta[a] = map[string]string{}
		for k, v := range md {
			out.AccountMeta[a][k] = v
		}
	}
	for acc, mm := range m.Balances {
		out.Balances[string(acc)] = map[string]*big.Int{}
		for as, b := range mm {
			out.Balances[string(acc)][string(as)] = new(big.Int).Set((*big.Int)(b))
		}
	}
	return out
}

func samePostingList(a, b []numgen.Posting) bool {
	if len(a) != len(b) {
		return false
	}
	for i := range a {
		if a[i].Source != b[i].Source || a[i].Destination != b[i].Destination || a[i].Asset != b[i].Asset || a[i].Amount.Cmp(b[i].Amount) != 0 {
			return false
		}
	}
	return true
}

func sameStringMap(a, b map[string]string) bool {
	if len(a) != len(b) {
		return false
	}
	for k, v := range a {
		if w, ok := b[k]; !ok || w != v {
			return false
		}
	}
	return true
}

func caseSample(c *numgen.Case) map[string]any {
	return map[string]any{"script": c.Text, "env": numgen.EnvString(c.Env)}
}

func describeImpl(r implResult) string {
	switch r.Class {
	case "panic":
		return fmt.Sprintf("panic in %s: %v", r.PanicStage, r.Panic)
	case numgen.OK:
		return "ok: " + numgen.PostingsString(r.Postings)
	default:
		return fmt.Sprintf("%s: %v", r.Class, firstLine(fmt.Sprint(r.Err)))
	}
}

func firstLine(s string) string {
	if i := strings.IndexByte(s, '\n'); i >= 0 {
		return s[:i]
	}
	return s
}

func sortedStrings(m map[string]bool) []string {
	out := make([]string, 0, len(m))
	for k := range m {
		out = append(out, k)
	}
	sort.Strings(out)
	return out
}

// truncated returns the program made of the first n statements.
func truncated(p *numgen.Program, n int) *numgen.Program {
	return &numgen.Program{Vars: p.Vars, Stmts: p.Stmts[:n]}
}
