package checks

// Shared-bucket family (C06, C07, C16): two ledgers of one bucket share the table `logs`, and with it the column
// an idempotency key is looked up in. Each ledger gets a real Commander; its writes go to a model store of its
// own AND through the real ledgerstore.Store.InsertLogs into one recording database, whose rows the mini SQL
// engine serves back to the real ledgerstore.Store.ReadLogWithIdempotencyKey. A generated sequence of keyed and
// unkeyed writes alternates between the two ledgers, with keys used on both.
//
// Oracle, after every request (sequential, so nothing is ambiguous): a request answered with success whose key
// was not used before ON ITS OWN LEDGER has exactly one new entry in its own ledger's log, carrying its own
// content (C06, C07: what the other ledger did with the same key is none of its business); a success on a key
// already used on the same ledger adds nothing; an error adds nothing; every event published for a ledger names
// that ledger and carries the content of an entry of that ledger's log (C16).

import (
	"context"
	"database/sql/driver"
	"encoding/json"
	"fmt"
	"math/big"
	"strings"
	"sync"

	"github.com/ThreeDotsLabs/watermill/message"
	ledger "github.com/formancehq/ledger/internal"
	"github.com/formancehq/ledger/internal/bus"
	"github.com/formancehq/ledger/internal/engine/command"
	"github.com/formancehq/ledger/internal/storage/ledgerstore"
	"github.com/formancehq/ledger/verifharness/enginesim"
	"github.com/formancehq/ledger/verifharness/evid"
	"github.com/formancehq/ledger/verifharness/sqlrec"
	"github.com/formancehq/stack/libs/go-libs/logging"
	"github.com/formancehq/stack/libs/go-libs/metadata"
	"pgregory.net/rapid"
)

// bucketDB is the database the two ledgers share: what InsertLogs committed, served back by the mini engine.
type bucketDB struct {
	mu     sync.Mutex
	script *sqlrec.TxScript
	eng    *sqlrec.Engine
	logs   *sqlrec.Table
	seen   int
}

func (b *bucketDB) sync() {
	b.mu.Lock()
	defer b.mu.Unlock()
	for ; b.seen < len(b.script.Committed); b.seen++ {
		r := b.script.Committed[b.seen]
		if len(r) < 7 {
			continue
		}
		var data driver.Value = r[5]
		if s, ok := r[5].(string); ok {
			data = []byte(s)
		}
		b.logs.Rows = append(b.logs.Rows, sqlrec.Row{"ledger": r[0], "id": fmt.Sprint(r[1]), "type": r[2], "hash": r[3], "date": r[4], "data": data, "idempotency_key": r[6]})
	}
}

// bucketLedger is the store of one ledger's Commander.
type bucketLedger struct {
	*enginesim.ModelStore
	ls *ledgerstore.Store
	db *bucketDB
}

func (l *bucketLedger) InsertLogs(ctx context.Context, logs ...*ledger.ChainedLog) error {
	if err := l.ls.InsertLogs(ctx, logs...); err != nil {
		return err
	}
	l.db.sync()
	return l.ModelStore.InsertLogs(ctx, logs...)
}

func (l *bucketLedger) ReadLogWithIdempotencyKey(ctx context.Context, key string) (*ledger.ChainedLog, error) {
	return l.ls.ReadLogWithIdempotencyKey(ctx, key)
}

// GetLastLog: the head a Commander resumes the chain from when it starts, read through the real SQL store.
func (l *bucketLedger) GetLastLog(ctx context.Context) (*ledger.ChainedLog, error) {
	return l.ls.GetLastLog(ctx)
}

type bucketPublisher struct {
	mu   sync.Mutex
	msgs [][]byte
}

func (p *bucketPublisher) Publish(topic string, msgs ...*message.Message) error {
	p.mu.Lock()
	defer p.mu.Unlock()
	for _, m := range msgs {
		p.msgs = append(p.msgs, append([]byte(nil), m.Payload...))
	}
	return nil
}
func (p *bucketPublisher) Close() error { return nil }

// tagsIn collects every value stored under the key "tag" anywhere in a JSON document.
func tagsIn(v any, out *[]string) {
	switch x := v.(type) {
	case map[string]any:
		for k, w := range x {
			if s, ok := w.(string); ok && k == "tag" {
				*out = append(*out, s)
			}
			tagsIn(w, out)
		}
	case []any:
		for _, w := range x {
			tagsIn(w, out)
		}
	}
}

func entryTag(cl *ledger.ChainedLog) string {
	switch p := cl.Data.(type) {
	case ledger.NewTransactionLogPayload:
		return p.Transaction.Metadata["tag"]
	case ledger.SetMetadataLogPayload:
		return p.Metadata["tag"]
	case ledger.DeleteMetadataLogPayload:
		return p.Key
	}
	return ""
}

func sharedBucket(rt *rapid.T, c *evid.Collector, prop string) {
	script := &sqlrec.TxScript{FailAt: -1}
	logsTable := &sqlrec.Table{Columns: []string{"ledger", "id", "type", "hash", "date", "data", "idempotency_key"}}
	eng := &sqlrec.Engine{Tables: map[string]*sqlrec.Table{"logs": logsTable}, Ledger: "la"}
	bdb := &bucketDB{script: script, eng: eng, logs: logsTable}
	db := sqlrec.NewDB(&sqlrec.Recorder{Tx: script, Answer: eng.Answer})
	defer db.Close()
	ctx := logging.ContextWithLogger(context.Background(), parDiscard{})
	names := []string{"la", "lb"}
	stores := map[string]*bucketLedger{}
	commanders := map[string]*command.Commander{}
	pubs := map[string]*bucketPublisher{}
	for _, name := range names {
		ms, spare, stopSpare := enginesim.Standalone()
		_ = spare
		stopSpare()
		st := &bucketLedger{ModelStore: ms, ls: ledgerstore.NewStoreForVerif(db, "bucket", name), db: bdb}
		pub := &bucketPublisher{}
		cm := command.New(st, command.NewDefaultLocker(), command.NewCompiler(64), command.NewReferencer(), bus.NewLedgerMonitor(pub, name))
		if err := cm.Init(ctx); err != nil {
			harnessError(rt, "cannot start the commander of %s: %v", name, err)
		}
		go cm.Run(ctx)
		stores[name], commanders[name], pubs[name] = st, cm, pub
	}
	start := func(name string) {
		cm := command.New(stores[name], command.NewDefaultLocker(), command.NewCompiler(64), command.NewReferencer(), bus.NewLedgerMonitor(pubs[name], name))
		if err := cm.Init(ctx); err != nil {
			harnessError(rt, "cannot start the commander of %s: %v", name, err)
		}
		go cm.Run(ctx)
		commanders[name] = cm
	}
	defer func() {
		for _, cm := range commanders {
			cm.Close()
		}
	}()
	n := rapid.IntRange(3, 10).Draw(rt, "sbOps")
	used := map[string]string{} // ledger/key -> kind that used it first
	var desc []string
	fail := func(sig, format string, args ...any) bool {
		if c.IsKnown(sig) {
			return false
		}
		rt.Logf("history: %s", strings.Join(desc, "; "))
		violation(rt, c, sig, format, args...)
		return true
	}
	sharedKey := false
	for i := 0; i < n; i++ {
		name := rapid.SampledFrom(names).Draw(rt, "sbLedger")
		if i > 0 && rapid.IntRange(0, 3).Draw(rt, "sbRestart") == 0 {
			// the process serving that ledger is restarted: it resumes its chain from what the store holds for it
			commanders[name].Close()
			start(name)
			desc = append(desc, "restart "+name)
		}
		kind := rapid.SampledFrom([]string{"create", "create", "save_meta", "delete_meta"}).Draw(rt, "sbKind")
		key := rapid.SampledFrom([]string{"", "k1", "k1", "k2"}).Draw(rt, "sbKey")
		tag := fmt.Sprintf("op%d", i)
		st, cm := stores[name], commanders[name]
		before := st.Len()
		params := command.Parameters{IdempotencyKey: key}
		var err error
		pn := safely(func() {
			switch kind {
			case "create":
				_, err = cm.CreateTransaction(ctx, params, ledger.TxToScriptData(ledger.TransactionData{Postings: ledger.Postings{ledger.NewPosting("world", "acc:"+tag, "USD", big.NewInt(int64(1+i)))}, Metadata: metadata.Metadata{"tag": tag}}, false))
			case "save_meta":
				err = cm.SaveMeta(ctx, params, ledger.MetaTargetTypeAccount, "acc:"+tag, metadata.Metadata{"tag": tag})
			default:
				err = cm.DeleteMetadata(ctx, params, ledger.MetaTargetTypeAccount, "acc:x", tag)
			}
		})
		desc = append(desc, fmt.Sprintf("%s %s key=%q -> err=%v", name, kind, key, err))
		if pn != nil {
			fail(prop+"/shared-bucket/panic", "request %d (%s on %s, key %q) panicked: %v", i, kind, name, key, pn)
			return
		}
		if len(eng.Unhandled) > 0 {
			harnessError(rt, "mini engine: %s", clip(eng.Unhandled[0]))
		}
		after := st.Len()
		firstKind, replay := used[name+"/"+key]
		if key == "" {
			replay = false
		}
		for _, other := range names {
			if other != name && key != "" {
				if _, ok := used[other+"/"+key]; ok {
					sharedKey = true
				}
			}
		}
		switch {
		case err != nil:
			if after != before {
				if fail(prop+"/shared-bucket/error-with-entry", "request %d (%s on %s, key %q) answered %v and %d entr(y/ies) appeared in the log of %s", i, kind, name, key, err, after-before, name) {
					return
				}
			}
			if !replay && key != "" {
				// refused although nobody on this ledger used the key: not a trace question, but the key is the other ledger's business
				if _, other := used[otherOf(name)+"/"+key]; other && strings.Contains(strings.ToLower(err.Error()), "conflict") {
					if fail(prop+"/shared-bucket/foreign-key-refused", "request %d (%s on %s) was refused with a conflict on key %q, which only the other ledger has used", i, kind, name, key) {
						return
					}
				}
			}
		case replay:
			if after != before {
				if fail(prop+"/shared-bucket/replay-wrote", "request %d (%s on %s) replays key %q (first used by a %s) and %d new entr(y/ies) appeared", i, kind, name, key, firstKind, after-before) {
					return
				}
			}
		default:
			if after != before+1 || entryTag(st.Entries[after-1].Log) != tag {
				got := "nothing"
				if after > before {
					got = "an entry tagged " + entryTag(st.Entries[after-1].Log)
				}
				if fail(prop+"/shared-bucket/acknowledged-without-entry", "request %d (%s on ledger %s, key %q never used on that ledger) was answered with success; the log of %s gained %s", i, kind, name, key, name, got) {
					return
				}
			}
			if key != "" {
				used[name+"/"+key] = kind
			}
		}
	}
	// each ledger's log is a chain of its own: ids 0,1,2,... and every hash the digest of the previous one and the content
	for _, name := range names {
		var prev *ledger.ChainedLog
		for i, e := range stores[name].Entries {
			if e.Log.ID.Int64() != int64(i) {
				if fail(prop+"/shared-bucket/log-id", "entry %d of ledger %s carries id %v (the other ledger of the bucket holds %d entries)", i, name, e.Log.ID, len(stores[otherOf(name)].Entries)) {
					return
				}
			}
			re := e.Log.Log.ChainLog(prev)
			if string(re.Hash) != string(e.Log.Hash) {
				if fail(prop+"/shared-bucket/hash", "entry %d of ledger %s: its hash is not the digest of the previous entry of that ledger and its content", i, name) {
					return
				}
			}
			prev = e.Log
		}
	}
	// events: each names its ledger and describes an entry of that ledger
	for _, name := range names {
		have := map[string]bool{}
		for _, e := range stores[name].Entries {
			have[entryTag(e.Log)] = true
		}
		for _, raw := range pubs[name].msgs {
			var doc map[string]any
			if err := json.Unmarshal(raw, &doc); err != nil {
				continue
			}
			payload, _ := doc["payload"].(map[string]any)
			if l, _ := payload["ledger"].(string); l != name {
				if fail(prop+"/shared-bucket/event-ledger", "an event published for %s names ledger %q: %s", name, l, clip(string(raw))) {
					return
				}
			}
			var tags []string
			tagsIn(doc, &tags)
			if k, ok := payload["key"].(string); ok {
				tags = append(tags, k)
			}
			for _, tg := range tags {
				if !have[tg] {
					if fail(prop+"/shared-bucket/event-without-entry", "an event published for ledger %s describes %q, which no entry of that ledger's log holds: %s", name, tg, clip(string(raw))) {
						return
					}
				}
			}
		}
	}
	c.Case(evid.Key("shared-bucket", strings.Join(desc, ";")), sharedKey, []string{"family:shared-bucket"}, func() any {
		return map[string]any{"family": "two ledgers of one bucket", "history": desc}
	})
}

func otherOf(name string) string {
	if name == "la" {
		return "lb"
	}
	return "la"
}
