package checks

// Look-up fault family (C11, C07): "this reference / this key is free" is an answer of the store; a look-up that the
// database did not finish is not that answer. The look-up goes through the real ledgerstore.Store (and with it
// through the store's classification of driver errors) over a driver that fails the statement with a generated
// PostgreSQL error; everything else is served by the model store. History: a write takes the reference (or key),
// is persisted, and then comes again while the database fails the look-up -- cancelled statement, lost connection,
// serialisation failure, shutdown, internal error. Whatever the engine answers, the reference (key) must still be
// carried by exactly one entry.

import (
	"context"
	"database/sql/driver"
	"fmt"
	"math/big"

	ledger "github.com/formancehq/ledger/internal"
	"github.com/formancehq/ledger/internal/bus"
	"github.com/formancehq/ledger/internal/engine/command"
	"github.com/formancehq/ledger/internal/storage/ledgerstore"
	"github.com/formancehq/ledger/verifharness/enginesim"
	"github.com/formancehq/ledger/verifharness/evid"
	"github.com/formancehq/ledger/verifharness/sqlrec"
	"github.com/formancehq/stack/libs/go-libs/logging"
	"github.com/formancehq/stack/libs/go-libs/metadata"
	"github.com/lib/pq"
	"pgregory.net/rapid"
)

type lookupFaultStore struct {
	*enginesim.ModelStore
	ls    *ledgerstore.Store
	armed bool
	hits  int
}

func (l *lookupFaultStore) GetTransactionByReference(ctx context.Context, ref string) (*ledger.ExpandedTransaction, error) {
	if l.armed {
		l.hits++
		return l.ls.GetTransactionByReference(ctx, ref)
	}
	return l.ModelStore.GetTransactionByReference(ctx, ref)
}

func (l *lookupFaultStore) ReadLogWithIdempotencyKey(ctx context.Context, key string) (*ledger.ChainedLog, error) {
	if l.armed {
		l.hits++
		return l.ls.ReadLogWithIdempotencyKey(ctx, key)
	}
	return l.ModelStore.ReadLogWithIdempotencyKey(ctx, key)
}

func lookupFault(rt *rapid.T, c *evid.Collector, prop string) {
	// SQLSTATEs of statements that did not run to an answer (class 02 "no data" is left out: that IS an answer)
	code := rapid.SampledFrom([]string{"57014", "57P01", "57P02", "57P03", "08000", "08003", "08006", "40001", "40P01", "53000", "53100", "53200", "53300", "54000", "55P03", "58000", "58030", "XX000", "XX001", "25P02", "42P01", "42501", "22021", "P0001", "P0003", "HV000", "F0000"}).Draw(rt, "lfCode")
	rec := &sqlrec.Recorder{Answer: func(string) ([]string, [][]driver.Value, error) {
		return nil, nil, &pq.Error{Code: pq.ErrorCode(code), Message: "injected: statement not completed", Severity: "ERROR"}
	}}
	db := sqlrec.NewDB(rec)
	defer db.Close()
	ms, spare, stopSpare := enginesim.Standalone()
	_ = spare
	stopSpare()
	st := &lookupFaultStore{ModelStore: ms, ls: ledgerstore.NewStoreForVerif(db, "bucket", "l1")}
	ctx := logging.ContextWithLogger(context.Background(), parDiscard{})
	cm := command.New(st, command.NewDefaultLocker(), command.NewCompiler(64), command.NewReferencer(), bus.NewNoOpMonitor())
	if err := cm.Init(ctx); err != nil {
		harnessError(rt, "cannot start the commander: %v", err)
	}
	go cm.Run(ctx)
	defer cm.Close()
	what := "reference"
	if prop == "C07" {
		what = "key"
	}
	submit := func(i int) error {
		rs := ledger.TxToScriptData(ledger.TransactionData{Postings: ledger.Postings{ledger.NewPosting("world", fmt.Sprintf("acc:%d", i), "USD", big.NewInt(int64(1+i)))}, Metadata: metadata.Metadata{"tag": fmt.Sprint(i)}}, false)
		params := command.Parameters{}
		if what == "reference" {
			rs.Reference = "order-42"
		} else {
			params.IdempotencyKey = "key-42"
			rs = ledger.TxToScriptData(ledger.TransactionData{Postings: ledger.Postings{ledger.NewPosting("world", "acc:0", "USD", big.NewInt(1))}, Metadata: metadata.Metadata{"tag": "0"}}, false) // the same request again
		}
		var err error
		if pn := safely(func() { _, err = cm.CreateTransaction(ctx, params, rs) }); pn != nil {
			err = fmt.Errorf("panic: %v", pn)
		}
		return err
	}
	if err := submit(0); err != nil {
		harnessError(rt, "the first write failed: %v", err)
	}
	before := ms.Len()
	st.armed = true
	attempts := rapid.IntRange(1, 3).Draw(rt, "lfAttempts")
	var answers []string
	for i := 1; i <= attempts; i++ {
		answers = append(answers, fmt.Sprint(submit(i)))
	}
	st.armed = false
	after := ms.Len()
	c.Case(evid.Key("lookup-fault", what, code, attempts), st.hits > 0, []string{"family:lookup-fault", "sqlstate:" + code[:2]}, func() any {
		return map[string]any{"family": "look-up fault", "claims": what, "sqlstate": code, "answers": answers, "lookupsFailed": st.hits}
	})
	if after != before {
		sig := prop + "/lookup-fault/" + what + "-taken-twice"
		if !c.IsKnown(sig) {
			violation(rt, c, sig, "a %s already carried by a persisted entry came again while the database failed the look-up (SQLSTATE %s): %d more entr(y/ies) were written with it; answers: %v", what, code, after-before, answers)
		}
	}
}
