package checks

// C01 (running-balance floor over emitted postings) and C03 (a send moves
// exactly what it says) are validity predicates over the output of the real
// pipeline; they do not compare with the reference interpreter's postings.

import (
	"fmt"
	"math/big"
	"testing"

	"github.com/formancehq/ledger/verifharness/evid"
	"github.com/formancehq/ledger/verifharness/numgen"
	"pgregory.net/rapid"
)

func TestC01(t *testing.T) {
	c := evid.New("C01")
	c.Rule = "typed generator (sources: accounts by literal / aliasing variable / metadata lookup, ordered, capped, portioned, nested to depth 3; specific / variable / unbounded overdraft; 1-4 statements sharing accounts, sends to and from world, save; one program in 8 uses one route twice with the payer credited in between, one in 8 lets an account pay itself and draws on it again) x balance tables with 0, negative and >2^64 balances. Oracle: replay of the emitted postings in order over the drawn balances with floor -(largest overdraft the script grants that account) for every debit of a non-world account; and: the reference says the sources cannot cover a send => the run fails with insufficient funds and yields nothing. Non-trivial = accepted run in which a source ends within 1 unit of its floor, goes negative, or re-spends funds received earlier; or a rejected run with amount class cap+1/cap+2; distinct by script + environment."
	c.Assumptions = []string{"overdraft grants are read from the harness's own AST of the program (literal, variable value, arithmetic), per account and asset, for the whole transaction"}
	cfg := numgen.GenCfg{MaxDepth: 3, MaxStmts: 4}
	cfg.AvoidKeptReserve = true
	runProp(t, c, func(rt *rapid.T) {
		cs := numgen.GenTyped(rt, cfg)
		ref := numgen.Run(cs.Prog, cs.Env)
		impl := runImpl(cs.Text, cs.Env, nil)
		labels := append([]string{"ref:" + ref.Class, "impl:" + impl.Class}, cs.Labels...)
		nontrivial := false
		key := cs.Text + "#" + numgen.EnvString(cs.Env)
		sample := func() any {
			s := caseSample(cs)
			s["implementation"] = describeImpl(impl)
			return s
		}
		if impl.Class == numgen.OK {
			st, ok := numgen.Resolve(cs.Prog, cs.Env)
			if !ok {
				c.Case(key, false, labels, sample)
				harnessError(rt, "accepted run but the harness cannot resolve the variables:\n%s", cs.Text)
			}
			grants, unbounded := st.GrantsOf(cs.Prog)
			bal := map[string]*big.Int{}
			get := func(acc, as string) *big.Int {
				k := acc + "/" + as
				if b, ok := bal[k]; ok {
					return b
				}
				b := cs.Env.Balance(acc, as)
				bal[k] = b
				return b
			}
			credited := map[string]bool{}
			for i, p := range impl.Postings {
				if p.Amount.Sign() < 0 {
					c.Case(key, true, labels, sample)
					rt.Logf("script:\n%s\nenv: %s", cs.Text, numgen.EnvString(cs.Env))
					violation(rt, c, "C01/negative-posting", "posting %d has a negative amount: %s", i, numgen.PostingsString(impl.Postings))
					return
				}
				k := p.Source + "/" + p.Asset
				if p.Source != "world" && p.Amount.Sign() > 0 {
					after := new(big.Int).Sub(get(p.Source, p.Asset), p.Amount)
					if credited[k] {
						nontrivial = true
						labels = append(labels, "respends-received-funds")
					}
					if !unbounded[k] {
						g := new(big.Int)
						if v, ok := grants[k]; ok && v.Sign() > 0 {
							g = v
						}
						floor := new(big.Int).Neg(g)
						if after.Cmp(floor) < 0 {
							c.Case(key, true, labels, sample)
							rt.Logf("script:\n%s\nenv: %s", cs.Text, numgen.EnvString(cs.Env))
							violation(rt, c, "C01/overdraft", "posting %d (%s->%s %s %v) takes %s to %v; it held %v and the script grants it an overdraft of %v\npostings: %s", i, p.Source, p.Destination, p.Asset, p.Amount, p.Source, after, get(p.Source, p.Asset), g, numgen.PostingsString(impl.Postings))
							return
						}
						if new(big.Int).Sub(after, floor).Cmp(big.NewInt(1)) <= 0 {
							nontrivial = true
							labels = append(labels, "tight-floor")
						}
					}
					if after.Sign() < 0 {
						nontrivial = true
						labels = append(labels, "uses-overdraft")
					}
				}
				bal[k] = new(big.Int).Sub(get(p.Source, p.Asset), p.Amount)
				dk := p.Destination + "/" + p.Asset
				bal[dk] = new(big.Int).Add(get(p.Destination, p.Asset), p.Amount)
				if p.Amount.Sign() > 0 {
					credited[dk] = true
				}
			}
		}
		if ref.Class == numgen.Insufficient {
			for _, l := range cs.Labels {
				if l == "amount:cap+1" || l == "amount:cap+2" {
					nontrivial = true
				}
			}
			if impl.Class == numgen.OK {
				c.Case(key, true, labels, sample)
				rt.Logf("script:\n%s\nenv: %s", cs.Text, numgen.EnvString(cs.Env))
				violation(rt, c, "C01/uncovered-send-accepted", "the sources cannot cover a send (%s) but the transaction was accepted with %s", ref.Reason, numgen.PostingsString(impl.Postings))
				return
			}
			if impl.Class != numgen.Insufficient && impl.Class != "panic" {
				c.Case(key, true, labels, sample)
				rt.Logf("script:\n%s\nenv: %s", cs.Text, numgen.EnvString(cs.Env))
				violation(rt, c, "C01/wrong-error-class", "the sources cannot cover a send (%s); the transaction was rejected as %s (%v) instead of insufficient funds", ref.Reason, impl.Class, firstLine(fmt.Sprint(impl.Err)))
				return
			}
		}
		c.Case(key, nontrivial, labels, sample)
	})
}

// c03Group checks one send against its group of postings.
func c03Group(st *numgen.Static, env *numgen.Env, sd numgen.Send, group []numgen.Posting, total *big.Int, first bool) (sig, msg string) {
	var asset string
	if sd.Amount != nil {
		v, ok := st.Eval(sd.Amount)
		if !ok {
			return "", ""
		}
		asset = v.(numgen.VMonetary).Asset
		total = v.(numgen.VMonetary).Amount
	} else {
		v, ok := st.Eval(sd.AllAsset)
		if !ok {
			return "", ""
		}
		asset = string(v.(numgen.VAsset))
	}
	for i, p := range group {
		if p.Amount.Sign() < 0 {
			return "C03/negative-posting", fmt.Sprintf("posting %d of the send is negative", i)
		}
		if p.Asset != asset {
			return "C03/asset", fmt.Sprintf("posting %d moves %s in a %s send", i, p.Asset, asset)
		}
	}
	if total == nil {
		return "", ""
	}
	leaves, kept, ok := st.Leaves(sd.Dest, total, asset)
	if !ok {
		return "", ""
	}
	// (2) partition the postings, in order, among the non-kept leaves
	sum := new(big.Int)
	for _, l := range leaves {
		sum.Add(sum, l.Amount)
	}
	if new(big.Int).Add(sum, kept).Cmp(total) != 0 {
		return "HARNESS", "leaf amounts do not add up to the total"
	}
	i := 0
	for li, l := range leaves {
		got := new(big.Int)
		for i < len(group) && got.Cmp(l.Amount) < 0 {
			p := group[i]
			if p.Destination != l.Account {
				return "C03/destination-order", fmt.Sprintf("leaf %d (%s) must receive %v but posting %d goes to %s after only %v\ngroup: %s", li, l.Account, l.Amount, i, p.Destination, got, numgen.PostingsString(group))
			}
			got.Add(got, p.Amount)
			i++
		}
		// zero postings addressed to this leaf may follow
		for i < len(group) && group[i].Amount.Sign() == 0 && group[i].Destination == l.Account {
			i++
		}
		if got.Cmp(l.Amount) != 0 {
			return "C03/leaf-amount", fmt.Sprintf("leaf %d (%s) must receive %v (total %v, kept %v) but received %v\ngroup: %s", li, l.Account, l.Amount, total, kept, got, numgen.PostingsString(group))
		}
	}
	for ; i < len(group); i++ {
		if group[i].Amount.Sign() != 0 {
			return "C03/extra-posting", fmt.Sprintf("posting %d (%s->%s %v) belongs to no destination of the send: more is moved than stated\ngroup: %s", i, group[i].Source, group[i].Destination, group[i].Amount, numgen.PostingsString(group))
		}
	}
	if !first {
		return "", ""
	}
	// (3) caps on sources and (4) ordered sources, on the first statement only (balances are the drawn ones)
	posted := map[string]*big.Int{}
	for _, p := range group {
		if posted[p.Source] == nil {
			posted[p.Source] = new(big.Int)
		}
		posted[p.Source].Add(posted[p.Source], p.Amount)
	}
	all := st.SourceAccounts(sd.Src)
	count := map[string]int{}
	for _, a := range all {
		count[a]++
	}
	var walk func(s numgen.Source) (string, string)
	walk = func(s numgen.Source) (string, string) {
		switch x := s.(type) {
		case numgen.SrcMax:
			mv, ok := st.Eval(x.Max)
			if !ok {
				return "", ""
			}
			capAmt := mv.(numgen.VMonetary).Amount
			accs := st.SourceAccounts(x.Src)
			exclusive := true
			inSub := map[string]int{}
			for _, a := range accs {
				inSub[a]++
			}
			for a, n := range inSub {
				if count[a] != n {
					exclusive = false
				}
			}
			if exclusive {
				tot := new(big.Int)
				for a := range inSub {
					if posted[a] != nil {
						tot.Add(tot, posted[a])
					}
				}
				if tot.Cmp(capAmt) > 0 {
					return "C03/source-max-exceeded", fmt.Sprintf("accounts %v are capped at %v but %v was taken from them\ngroup: %s", accs, capAmt, tot, numgen.PostingsString(group))
				}
			}
			return walk(x.Src)
		case numgen.SrcInOrder:
			// capacity of simple entries
			type ent struct {
				acc      string
				capacity *big.Int
			}
			var ents []*ent
			for _, sub := range x.Srcs {
				var e *ent
				switch y := sub.(type) {
				case numgen.SrcAccount:
					av, ok := st.Eval(y.Acc)
					if ok && string(av.(numgen.VAccount)) != "world" && (y.Overdraft == nil || !y.Overdraft.Unbounded) {
						od := new(big.Int)
						if y.Overdraft != nil {
							if mv, ok := st.Eval(y.Overdraft.Amount); ok {
								od = mv.(numgen.VMonetary).Amount
							}
						}
						acc := string(av.(numgen.VAccount))
						capv := new(big.Int).Add(env.Balance(acc, asset), od)
						if capv.Sign() < 0 {
							capv = new(big.Int)
						}
						if count[acc] == 1 {
							e = &ent{acc, capv}
						}
					}
				}
				ents = append(ents, e)
				if sig, msg := walk(sub); sig != "" {
					return sig, msg
				}
			}
			for j := range x.Srcs {
				laterPosted := false
				for _, a := range st.SourceAccounts(x.Srcs[j]) {
					// only accounts named once in the whole source tree can be attributed to this entry
					if count[a] == 1 && posted[a] != nil && posted[a].Sign() > 0 {
						laterPosted = true
					}
				}
				if !laterPosted {
					continue
				}
				for i := 0; i < j; i++ {
					if ents[i] == nil {
						continue
					}
					got := posted[ents[i].acc]
					if got == nil {
						got = new(big.Int)
					}
					if got.Cmp(ents[i].capacity) < 0 {
						return "C03/ordered-source-skipped", fmt.Sprintf("ordered sources: entry %d contributed although entry %d (%s) gave only %v of the %v it can give\ngroup: %s", j, i, ents[i].acc, got, ents[i].capacity, numgen.PostingsString(group))
					}
				}
			}
			// an account named twice in the list, first under a cap and later plainly: what it gives beyond the
			// cap comes from its later entry, so the simple entries in between must have given all they can
			for i, sub := range x.Srcs {
				mx, isMax := sub.(numgen.SrcMax)
				if !isMax {
					continue
				}
				inner, isAcc := mx.Src.(numgen.SrcAccount)
				if !isAcc {
					continue
				}
				av, ok := st.Eval(inner.Acc)
				mv, ok2 := st.Eval(mx.Max)
				if !ok || !ok2 {
					continue
				}
				acc := string(av.(numgen.VAccount))
				if acc == "world" || count[acc] != 2 {
					continue
				}
				capAmt := mv.(numgen.VMonetary).Amount
				for j := i + 1; j < len(x.Srcs); j++ {
					later, isAcc := x.Srcs[j].(numgen.SrcAccount)
					if !isAcc {
						continue
					}
					lv, ok := st.Eval(later.Acc)
					if !ok || string(lv.(numgen.VAccount)) != acc {
						continue
					}
					if posted[acc] == nil || posted[acc].Cmp(capAmt) <= 0 {
						break
					}
					for k := i + 1; k < j; k++ {
						if ents[k] == nil {
							continue
						}
						got := posted[ents[k].acc]
						if got == nil {
							got = new(big.Int)
						}
						if got.Cmp(ents[k].capacity) < 0 {
							return "C03/ordered-source-skipped", fmt.Sprintf("ordered sources: %s gave %v, more than the %v its capped entry %d allows, so its later entry %d contributed although entry %d (%s) gave only %v of the %v it can give\ngroup: %s", acc, posted[acc], capAmt, i, j, k, ents[k].acc, got, ents[k].capacity, numgen.PostingsString(group))
						}
					}
					break
				}
			}
		case numgen.SrcAllotment:
			for _, sub := range x.Srcs {
				if sig, msg := walk(sub); sig != "" {
					return sig, msg
				}
			}
		}
		return "", ""
	}
	return walk(sd.Src)
}

func TestC03(t *testing.T) {
	c := evid.New("C03")
	c.Rule = "typed generator, every destination shape (account, ordered with max, portioned with n/d, x.y%, variable and remaining portions, kept, nested to depth 3) and source shape, amounts incl. 0, capacity+-1, 2^63-1, 2^64, 10^30, send-all; multi-send programs are split into per-send groups by running the program truncated after each statement (the truncated run must yield a prefix of the postings). Oracle per group: no negative posting; the postings partition, in written order, among the non-kept leaves, each leaf receiving exactly floor-share-plus-leftover / min(max, rest) of the stated total (for [A *]: of what the sources can provide); nothing extra; a capped source subtree gives at most its cap; an ordered-list entry contributes only if the earlier simple entries gave their full capacity. Non-trivial = group with >=2 destination leaves and a division remainder, a binding cap, a kept part, or >=2 contributing sources; distinct by script + environment."
	c.Assumptions = []string{"for `send [A *]` the total is what the harness's reference interpreter says the sources can provide", "postings with amount zero are ignored when partitioning"}
	cfg := numgen.GenCfg{MaxDepth: 3, MaxStmts: 3, OnlySends: false, Coverable: true}
	cfg.AvoidKeptReserve = true
	runProp(t, c, func(rt *rapid.T) {
		if rapid.IntRange(0, 19).Draw(rt, "incompletePortions") == 0 {
			c03IncompletePortions(rt, c)
			return
		}
		cs := numgen.GenTyped(rt, cfg)
		impl := runImpl(cs.Text, cs.Env, nil)
		labels := append([]string{"impl:" + impl.Class}, cs.Labels...)
		key := cs.Text + "#" + numgen.EnvString(cs.Env)
		sample := func() any {
			s := caseSample(cs)
			s["implementation"] = describeImpl(impl)
			return s
		}
		if impl.Class != numgen.OK {
			c.Case(key, false, labels, sample)
			return
		}
		ref := numgen.Run(cs.Prog, cs.Env)
		st, ok := numgen.Resolve(cs.Prog, cs.Env)
		if !ok {
			c.Case(key, false, labels, sample)
			harnessError(rt, "accepted run but the harness cannot resolve the variables:\n%s", cs.Text)
		}
		// per-statement groups through truncation
		prev := []numgen.Posting{}
		nontrivial := false
		for k := 1; k <= len(cs.Prog.Stmts); k++ {
			var cur []numgen.Posting
			if k == len(cs.Prog.Stmts) {
				cur = impl.Postings
			} else {
				pi := runImpl(numgen.Render(truncated(cs.Prog, k), cs.Layout), cs.Env, nil)
				if pi.Class != numgen.OK {
					// e.g. request metadata clashes only show at the end; nothing to group
					c.Case(key, false, append(labels, "prefix-not-ok"), sample)
					return
				}
				cur = pi.Postings
			}
			if len(cur) < len(prev) || !samePostingList(cur[:len(prev)], prev) {
				c.Case(key, true, labels, sample)
				rt.Logf("script:\n%s\nenv: %s", cs.Text, numgen.EnvString(cs.Env))
				violation(rt, c, "C03/prefix", "the postings of the first %d statements are not a prefix of the postings of the first %d:\n  %s\n  %s", k-1, k, numgen.PostingsString(prev), numgen.PostingsString(cur))
				return
			}
			group := cur[len(prev):]
			prev = cur
			sd, isSend := cs.Prog.Stmts[k-1].(numgen.Send)
			if !isSend {
				if len(group) != 0 {
					c.Case(key, true, labels, sample)
					violation(rt, c, "C03/non-send-posts", "statement %d is not a send but produced postings %s", k, numgen.PostingsString(group))
					return
				}
				continue
			}
			var total *big.Int
			if sd.Amount == nil {
				if ref.Class == numgen.OK && k-1 < len(ref.Totals) {
					total = ref.Totals[k-1]
				}
			}
			srcs := map[string]bool{}
			dsts := map[string]bool{}
			for _, p := range group {
				if p.Amount.Sign() > 0 {
					srcs[p.Source] = true
					dsts[p.Destination] = true
				}
			}
			if len(dsts) >= 2 || len(srcs) >= 2 {
				nontrivial = true
			}
			sig, msg := c03Group(st, cs.Env, sd, group, total, k == 1)
			if sig == "HARNESS" {
				harnessError(rt, "%s", msg)
			}
			if sig != "" {
				c.Case(key, true, labels, sample)
				if !c.IsKnown(sig) {
					rt.Logf("script:\n%s\nenv: %s", cs.Text, numgen.EnvString(cs.Env))
					violation(rt, c, sig, "statement %d: %s", k, msg)
				}
				return
			}
		}
		c.Case(key, nontrivial, labels, sample)
	})
}
