package checks

// C19, overlapping family: a write request whose body arrives slowly is in the read-only gate while a
// read request passes through it. The harness owns the moment the body ends (a blocking reader), so the
// overlap is exact; nothing may reach the backend's write methods.

import (
	"fmt"
	"io"
	"net/http"
	"net/http/httptest"
	"strings"
	"sync"

	"github.com/formancehq/ledger/verifharness/evid"
	"github.com/formancehq/ledger/verifharness/httpsim"
	"pgregory.net/rapid"
)

type c19SlowBody struct {
	started chan struct{}
	release chan struct{}
	once    sync.Once
	rest    io.Reader
}

func (b *c19SlowBody) Read(p []byte) (int, error) {
	b.once.Do(func() { close(b.started) })
	<-b.release
	return b.rest.Read(p)
}
func (b *c19SlowBody) Close() error { return nil }

func c19Overlap(rt *rapid.T, c *evid.Collector, writeRoutes [][2]string) {
	be := httpsim.NewFakeBackend()
	ro := httpsim.NewRouter(be, true)
	nWrites := rapid.IntRange(1, 3).Draw(rt, "slowWrites")
	type pending struct {
		body *c19SlowBody
		done chan struct{}
		rec  *httptest.ResponseRecorder
		desc string
	}
	var ps []*pending
	for i := 0; i < nWrites; i++ {
		route := rapid.SampledFrom(writeRoutes).Draw(rt, "slowRoute")
		path := c19Instantiate(rt, route[1])
		text := rapid.SampledFrom([]string{"", `{"postings":[{"source":"world","destination":"a","asset":"USD","amount":1}]}`, `{"k":"v"}`, bulkBodyAllActions()}).Draw(rt, "slowBody")
		p := &pending{body: &c19SlowBody{started: make(chan struct{}), release: make(chan struct{}), rest: strings.NewReader(text)}, done: make(chan struct{}), rec: httptest.NewRecorder(), desc: route[0] + " " + path}
		req := httpsim.NewRequest(route[0], path)
		req.Body = p.body
		req.ContentLength = -1
		req.Header.Set("Content-Type", "application/json")
		go func() {
			defer close(p.done)
			defer func() { _ = recover() }()
			ro.ServeHTTP(p.rec, req)
		}()
		// until the request either waits for its body or has been answered
		select {
		case <-p.body.started:
		case <-p.done:
		}
		ps = append(ps, p)
		// reads pass through the gate meanwhile
		for j, n := 0, rapid.IntRange(0, 2).Draw(rt, "readsBetween"); j < n; j++ {
			m := rapid.SampledFrom([]string{"GET", "HEAD", "OPTIONS"}).Draw(rt, "readMethod")
			httpsim.Serve(ro, m, rapid.SampledFrom([]string{"/api/ledger/v2/l1/transactions", "/api/ledger/v2/l1/accounts", "/api/ledger/l1/transactions", "/api/ledger/v2/_info", "/api/ledger/v2/l1/logs"}).Draw(rt, "readPath"), nil, "")
		}
	}
	// the bodies end, in a drawn order
	order := rapid.Permutation(ps).Draw(rt, "endOrder")
	overlapped := false
	for _, p := range order {
		select {
		case <-p.done:
		default:
			overlapped = true
		}
		close(p.body.release)
		<-p.done
	}
	var descs []string
	for _, p := range ps {
		descs = append(descs, p.desc)
	}
	c.Case(evid.Key("overlap", strings.Join(descs, ";")), overlapped, []string{"family:overlap", fmt.Sprintf("slow-writes:%d", nWrites)}, func() any {
		return map[string]any{"family": "overlap", "writes": descs}
	})
	if w := be.Writes(); len(w) > 0 {
		if !c.IsKnown("C19/write-in-read-only/overlap") {
			rt.Logf("slow write requests: %v", descs)
			violation(rt, c, "C19/write-in-read-only/overlap", "a write request whose body ended after a read request had passed the read-only gate reached the backend: %s", writeKinds(w))
		}
	}
	_ = http.MethodGet
}
