package checks

// C06 Acknowledged means persisted; rejected means no trace.
//
// For every generated history (operations + one scheduling choice list) the
// fault-free run is executed first; then the same history is re-executed once
// per crash position 0..K (K = its number of scheduler steps) and once per
// InsertLogs call failing. That is exhaustive over crash points and single
// store faults of that history (fault_enumeration) on top of random
// histories and interleavings.

import (
	"fmt"
	"testing"

	"github.com/formancehq/ledger/verifharness/enginesim"
	"github.com/formancehq/ledger/verifharness/evid"
	"pgregory.net/rapid"
)

func c06InFlight(r *enginesim.Result) bool {
	// was some request past chaining and not yet answered when the process died?
	chained := map[int]int{}
	for _, e := range r.Events {
		if e.Kind == "gate" && e.Point == "append.chained" {
			chained[e.Client] = e.Step
		}
	}
	for cl, st := range chained {
		resp := r.Responses[cl]
		if resp == nil {
			continue
		}
		for _, cs := range r.CrashSteps {
			if st < cs && (resp.Lost || !resp.Answered) && resp.Step >= cs {
				return true
			}
		}
	}
	return false
}

func TestC06(t *testing.T) {
	c := evid.New("C06")
	c.Rule = "one case in 25 runs two ledgers of one bucket (a real Commander each; InsertLogs and the idempotency-key lookup of both go through the real ledgerstore.Store over one recording database served by the mini SQL engine) through 3-10 sequential keyed and unkeyed writes with keys used on both ledgers: a success on a key never used on its own ledger has exactly one new entry of its own in its own log. One case in 25 sends the writes as elements of one bulk request (outcomes known by construction, a third of the elements with an idempotency key of their own) through the real router over a real Commander: the persisted log must hold exactly the acknowledged elements, in order. One case in 25 is store-layer: a chained batch of 1-5 generated entries goes through the real ledgerstore.Store.InsertLogs over a recording SQL driver that keeps a transaction's rows apart until its COMMIT succeeds; one run per failing driver step (begin, prepare, each row, flush, statement close, commit): success answered => every row committed, error => none. Otherwise two modes. Sampled (19 of 20 cases): one run of a generated history of up to 3 rounds with crash points, a store fault (returning a plain error, a wrapped context.Canceled / DeadlineExceeded / sql.ErrTxDone or an unexpected EOF, drawn) and the death grace drawn with the plan. Enumerated (1 of 20): per generated history (funding prefix + 1-2 rounds of 1-3 concurrent writes of all kinds, keys and references, one choice list): the fault-free run, then one run per crash position 0..K and one run per failing InsertLogs call (exhaustive per history; the error kind rotates over the five from a drawn start). evaluations = runs. Oracle per run: each success has exactly one entry with the returned content, persisted before the answer; errors leave nothing; no orphan entry; ids stay dense across the restart. Non-trivial = the crash/fault struck while a request was between chaining and its answer; distinct by operations + gate trace + fault position."
	c.Assumptions = []string{engineAssumption, "a crash is modelled as: the generation's goroutines stop at their next scheduling point, un-inserted batches vanish, a new Commander is built over the same store"}
	cfg := enginesim.DefaultConfig()
	cfg.MaxRounds = 2
	cfg.MaxPerRound = 3
	cfg.SmallBatches = true
	cfg.FailingPct = 10
	cfg.Choices = 120
	cfg.MetaFirstPct = 20
	// sampled histories: up to 3 rounds, crash points and a store fault drawn with the plan
	scfg := cfg
	scfg.MaxRounds = 3
	scfg.Crashes = 2
	scfg.Faults = 1
	scfg.ReadFaults = 1
	scfg.Closes = 3
	scfg.SharedNamePct = 12                      // a keyed write sent twice at the same time (and a third request using the same text as its reference)
	scfg.WideBurstPct = 25                       // several entries queued behind the one being persisted (when a shutdown or a crash comes)
	scfg.IKPool = []string{"", "", "", "", "k1"} // mostly distinct writes: more logs in flight at a time
	scfg.Cancels = 2
	scfg.HandoffCancels = 1
	scfg.Holds = 1
	scfg.Choices = 200
	enumerated := 0
	runProp(t, c, func(rt *rapid.T) {
		if rapid.IntRange(0, 24).Draw(rt, "storeLayer") == 0 {
			c06StoreLayer(rt, c)
			return
		}
		if rapid.IntRange(0, 24).Draw(rt, "sharedBucket") == 0 {
			// two ledgers of one bucket, keys used on both, the idempotency lookup through the real SQL store
			sharedBucket(rt, c, "C06")
			return
		}
		if rapid.IntRange(0, 24).Draw(rt, "bulkFamily") == 0 {
			// writes that arrive as elements of a bulk request (some keyed): each acknowledged element has its own entry
			bulkOverEngine(rt, c, "C06")
			return
		}
		sampled := rapid.IntRange(0, 19).Draw(rt, "sampled") != 0
		var plan *enginesim.Plan
		if sampled {
			plan = enginesim.GenPlan(rt, scfg)
		} else {
			plan = enginesim.GenPlan(rt, cfg)
		}
		identicalKeyGroups(plan)
		base := runEngine(t, rt, c, plan)
		if base == nil {
			return
		}
		judge := func(r *enginesim.Result, what string) bool {
			labels, _ := concurrencyLabels(r)
			labels = append(labels, what[:1])
			c.Case(enginesim.TraceKey(r)+what, c06InFlight(r) || r.Faults > 0, labels, sampleOf(r))
			for _, v := range []*enginesim.Verdict{enginesim.CheckAck(r), enginesim.CheckChain(r)} {
				if v != nil {
					if c.IsKnown(v.Sig) {
						continue
					}
					rt.Logf("%s: history: %s", what, mustJSON(enginesim.RenderResult(r)))
					violation(rt, c, v.Sig, "[%s] %s", what, v.Msg)
					return false
				}
			}
			return true
		}
		if sampled {
			judge(base, "sampled")
			c.Add("histories_sampled", 1)
			return
		}
		if !judge(base, "nofault") {
			return
		}
		inserts := 0
		for _, a := range base.Store.Attempts {
			_ = a
			inserts++
		}
		for k := 0; k <= base.Steps; k++ {
			p := *plan
			p.CrashAt = []int{k}
			r := runEngine(t, rt, c, &p)
			if r == nil {
				continue
			}
			if !judge(r, fmt.Sprintf("crash@%d", k)) {
				return
			}
		}
		// which error the failing insert returns rotates over the kinds of enginesim.InsertFault, from a drawn start
		faultKinds := []int{0, 1, 2, 3, 4}
		kindOff := rapid.IntRange(0, 4).Draw(rt, "faultKindOffset")
		for j := 0; j < inserts; j++ {
			// a dying process does not stop atomically: also let requests that are past their
			// wait for persistence run on for a few steps after the runner has panicked
			for gi, grace := range []int{0, 6} {
				p := *plan
				p.FaultAt = []int{j}
				p.FaultKind = faultKinds[(kindOff+j+gi)%len(faultKinds)]
				p.DeathGrace = grace
				r := runEngine(t, rt, c, &p)
				if r == nil {
					continue
				}
				if !judge(r, fmt.Sprintf("fault@%d/kind%d+grace%d", j, p.FaultKind, grace)) {
					return
				}
			}
		}
		enumerated++
		c.Add("histories_enumerated", 1)
		c.Add("crash_points_enumerated", base.Steps+1)
		c.Add("store_faults_enumerated", 2*inserts)
	})
}
