package checks

// C10 over HTTP: the mode of a revert (forced or not) is what the client's own request says, on the
// single revert routes of both API versions and in bulk elements, whatever other requests or elements said.

import (
	"fmt"
	"math/big"
	"strings"

	"github.com/formancehq/ledger/internal/api/backend"
	"github.com/formancehq/ledger/verifharness/enginesim"
	"github.com/formancehq/ledger/verifharness/evid"
	"github.com/formancehq/ledger/verifharness/httpsim"
	"pgregory.net/rapid"
)

func c10HTTP(rt *rapid.T, c *evid.Collector) {
	store, commander, stop := enginesim.Standalone()
	defer stop()
	be := httpsim.NewFakeBackend()
	be.Override = func(name string) backend.Ledger {
		return &httpsim.EngineLedger{FakeLedger: &httpsim.FakeLedger{Name: name}, Commander: commander}
	}
	router := httpsim.NewRouter(be, false)
	hdr := map[string]string{"Content-Type": "application/json"}
	post := func(path, body string) int {
		return httpsim.Serve(router, "POST", path, hdr, body).Code
	}
	tx := func(src, dst string, amt int) string {
		return fmt.Sprintf(`{"postings":[{"source":"%s","destination":"%s","asset":"USD","amount":%d}]}`, src, dst, amt)
	}
	// k accounts are funded (tx 0..k-1); some of them spend what they got (the funds move on)
	k := rapid.IntRange(2, 4).Draw(rt, "c10hAccounts")
	spent := make([]bool, k)
	for i := 0; i < k; i++ {
		if post("/api/ledger/v2/l1/transactions", tx("world", fmt.Sprintf("acc%d", i), 100)) >= 300 {
			harnessError(rt, "funding failed")
		}
	}
	for i := 0; i < k; i++ {
		if rapid.Bool().Draw(rt, "c10hSpent") {
			spent[i] = true
			if post("/api/ledger/v2/l1/transactions", tx(fmt.Sprintf("acc%d", i), "gone", 100)) >= 300 {
				harnessError(rt, "spending failed")
			}
		}
	}
	// every funding transaction gets one revert request, forced or not, by one of the routes
	forced := make([]bool, k)
	route := rapid.SampledFrom([]string{"bulk", "v2", "v1", "bulk-mixed-keys"}).Draw(rt, "c10hRoute")
	var desc []string
	switch route {
	case "bulk", "bulk-mixed-keys":
		var els []string
		for i := 0; i < k; i++ {
			forced[i] = rapid.Bool().Draw(rt, "c10hForce")
			switch {
			case forced[i]:
				els = append(els, fmt.Sprintf(`{"action":"REVERT_TRANSACTION","data":{"id":%d,"force":true}}`, i))
			case route == "bulk-mixed-keys" && rapid.Bool().Draw(rt, "c10hExplicitFalse"):
				els = append(els, fmt.Sprintf(`{"action":"REVERT_TRANSACTION","data":{"id":%d,"force":false}}`, i))
			default:
				els = append(els, fmt.Sprintf(`{"action":"REVERT_TRANSACTION","data":{"id":%d}}`, i))
			}
		}
		httpsim.Serve(router, "POST", "/api/ledger/v2/l1/_bulk?continueOnFailure=true", hdr, "["+strings.Join(els, ",")+"]")
	default:
		for i := 0; i < k; i++ {
			forced[i] = rapid.Bool().Draw(rt, "c10hForce")
			path := fmt.Sprintf("/api/ledger/v2/l1/transactions/%d/revert", i)
			if route == "v1" {
				path = fmt.Sprintf("/api/ledger/l1/transactions/%d/revert", i)
			}
			flag := "force"
			if route == "v1" {
				flag = "disableChecks" // the v1 spelling of the same switch
			}
			if forced[i] {
				path += "?" + flag + "=true"
			} else if rapid.Bool().Draw(rt, "c10hExplicitFalse") {
				path += "?" + flag + "=false"
			}
			post(path, "")
		}
	}
	for i := 0; i < k; i++ {
		desc = append(desc, fmt.Sprintf("tx%d spent=%v forced=%v", i, spent[i], forced[i]))
	}
	mixed := false
	for i := 1; i < k; i++ {
		if forced[i] != forced[0] {
			mixed = true
		}
	}
	c.Case(evid.Key("http", route, strings.Join(desc, ";")), mixed, []string{"family:http", "route:" + route}, func() any {
		return map[string]any{"family": "http", "route": route, "history": desc}
	})
	fold := store.FoldNow()
	for i := 0; i < k; i++ {
		acc := fmt.Sprintf("acc%d", i)
		bal := fold.Balance(acc, "USD")
		t := fold.Txs[fmt.Sprint(i)]
		want := !spent[i] || forced[i] // the revert goes through unless the funds are gone and the client did not force it
		if t == nil {
			harnessError(rt, "transaction %d missing from the fold", i)
		}
		if t.Reverted != want {
			if !c.IsKnown("C10/http/mode") {
				rt.Logf("route %s; %s", route, strings.Join(desc, "; "))
				violation(rt, c, "C10/http/mode", "transaction %d (funds moved on: %v) was asked to be reverted with force=%v through %s: reverted=%v, expected %v", i, spent[i], forced[i], route, t.Reverted, want)
			}
			return
		}
		if bal.Cmp(big.NewInt(0)) < 0 && !forced[i] {
			if !c.IsKnown("C10/http/overdraft") {
				violation(rt, c, "C10/http/overdraft", "%s holds %v after an unforced revert", acc, bal)
			}
			return
		}
	}
}
