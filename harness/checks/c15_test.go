package checks

// C15 Account locks are exclusive and are always eventually granted.
// The real command.DefaultLocker runs inside a testing/synctest bubble; a
// generated action list (request / release / cancel / cancel-at-the-moment-of-
// grant) is interpreted against the state observed from outside (which Lock
// calls have returned), and synctest.Wait makes that state exact.

import (
	"context"
	"fmt"
	"sort"
	"strings"
	"sync"
	"testing"
	"testing/synctest"
	"time"

	"github.com/formancehq/ledger/internal/engine/command"
	"github.com/formancehq/ledger/verifharness/evid"
	"github.com/formancehq/ledger/verifharness/hookctx"
	"github.com/formancehq/stack/libs/go-libs/logging"
	"pgregory.net/rapid"
)

type c15Action struct {
	Kind  string // request | release | cancel | grantrace | cancelqueued | precancelled
	Read  []string
	Write []string
	Pick  int
	// grantrace only: a second request with the same sets is queued right behind the raced one
	Behind bool
}

type c15Req struct {
	id        int
	read      []string
	write     []string
	ctx       context.Context
	cancel    context.CancelFunc
	cancelled bool
	returned  bool
	err       error
	unlock    command.Unlock
	released  bool
	hold      chan struct{} // non-nil: park at lock.queued until closed
	holdEnq   chan struct{} // non-nil: park at lock.enqueue (between the failed attempt and queueing) until closed
	atGate    bool
	run       *c15Run
	mu        sync.Mutex
}

func (r *c15Req) Yield(ctx context.Context, point string) {
	if point == "lock.queued" && r.hold != nil {
		r.mu.Lock()
		r.atGate = true
		r.mu.Unlock()
		<-r.hold
	}
	if point == "lock.enqueue" && r.holdEnq != nil {
		r.mu.Lock()
		r.atGate = true
		r.mu.Unlock()
		<-r.holdEnq
	}
}
func (r *c15Req) Await(context.Context, string, <-chan struct{}) {}

// BeforeLock keeps a contender away from the locker's mutex while the harness holds another
// request inside it (a goroutine blocked in Mutex.Lock is not durably blocked for synctest).
func (r *c15Req) BeforeLock(ctx context.Context, name string, mu *sync.Mutex) {
	for {
		if mu.TryLock() {
			mu.Unlock()
			return
		}
		<-r.run.retryChan()
	}
}
func (r *c15Req) Expose(context.Context, string, any) {}

func (r *c15Req) open() {
	select {
	case <-r.hold:
	default:
		close(r.hold)
	}
}

func conflicts(a, b *c15Req) bool {
	in := func(x string, l []string) bool {
		for _, y := range l {
			if x == y {
				return true
			}
		}
		return false
	}
	for _, x := range a.write {
		if in(x, b.read) || in(x, b.write) {
			return true
		}
	}
	for _, x := range b.write {
		if in(x, a.read) || in(x, a.write) {
			return true
		}
	}
	return false
}

type c15Run struct {
	locker   *command.DefaultLocker
	reqs     []*c15Req
	log      []string
	rmu      sync.Mutex
	retry    chan struct{}
	enqRaces int
	// statistics
	queued, cancels, races, raceWonByCancel int
}

func (r *c15Run) retryChan() chan struct{} {
	r.rmu.Lock()
	defer r.rmu.Unlock()
	if r.retry == nil {
		r.retry = make(chan struct{})
	}
	return r.retry
}

// kick lets every contender parked in BeforeLock look at the mutex again.
func (r *c15Run) kick() {
	r.rmu.Lock()
	if r.retry != nil {
		close(r.retry)
		r.retry = nil
	}
	r.rmu.Unlock()
}

func (r *c15Run) start(read, write []string, hold, precancel bool) *c15Req {
	return r.startMode(read, write, hold, false, precancel)
}

func (r *c15Run) startMode(read, write []string, hold, holdEnq, precancel bool) *c15Req {
	q := &c15Req{id: len(r.reqs), read: read, write: write, run: r}
	if hold {
		q.hold = make(chan struct{})
	}
	if holdEnq {
		q.holdEnq = make(chan struct{})
	}
	base := logging.ContextWithLogger(context.Background(), nopLog{})
	q.ctx, q.cancel = context.WithCancel(hookctx.With(base, q))
	if precancel {
		q.cancel()
		q.cancelled = true
	}
	r.reqs = append(r.reqs, q)
	go func() {
		u, err := r.locker.Lock(q.ctx, command.Accounts{Read: q.read, Write: q.write})
		q.mu.Lock()
		q.unlock, q.err, q.returned = u, err, true
		q.mu.Unlock()
	}()
	synctest.Wait()
	r.log = append(r.log, fmt.Sprintf("request #%d r=%v w=%v hold=%v precancelled=%v -> %s", q.id, read, write, hold, precancel, r.state(q)))
	return q
}

func (r *c15Run) state(q *c15Req) string {
	q.mu.Lock()
	defer q.mu.Unlock()
	switch {
	case !q.returned && q.atGate:
		return "parked-at-queue-gate"
	case !q.returned:
		return "waiting"
	case q.err != nil:
		return "error"
	case q.released:
		return "released"
	default:
		return "holding"
	}
}

func (r *c15Run) holders() []*c15Req {
	var out []*c15Req
	for _, q := range r.reqs {
		if r.state(q) == "holding" {
			out = append(out, q)
		}
	}
	return out
}

func (r *c15Run) waiters() []*c15Req {
	var out []*c15Req
	for _, q := range r.reqs {
		if s := r.state(q); s == "waiting" {
			out = append(out, q)
		}
	}
	return out
}

func (r *c15Run) release(q *c15Req) {
	q.unlock(context.Background())
	q.mu.Lock()
	q.released = true
	q.mu.Unlock()
	synctest.Wait()
	r.log = append(r.log, fmt.Sprintf("release #%d", q.id))
}

// invariants returns a violated invariant or "".
func (r *c15Run) invariants() (string, string) {
	hs := r.holders()
	for i := range hs {
		for j := i + 1; j < len(hs); j++ {
			if conflicts(hs[i], hs[j]) {
				return "C15/exclusion", fmt.Sprintf("requests #%d (r=%v w=%v) and #%d (r=%v w=%v) hold conflicting locks at the same time", hs[i].id, hs[i].read, hs[i].write, hs[j].id, hs[j].read, hs[j].write)
			}
		}
	}
	for _, q := range r.reqs {
		st := r.state(q)
		if st == "error" && !q.cancelled {
			return "C15/spurious-error", fmt.Sprintf("request #%d failed (%v) although it was never cancelled", q.id, q.err)
		}
	}
	for _, w := range r.waiters() {
		if w.cancelled {
			return "C15/cancelled-still-waiting", fmt.Sprintf("request #%d was cancelled but its Lock call has not returned", w.id)
		}
		blocked := false
		for _, h := range hs {
			if conflicts(w, h) {
				blocked = true
			}
		}
		if !blocked {
			return "C15/grantable-left-waiting", fmt.Sprintf("request #%d (r=%v w=%v) is still waiting although no current holder conflicts with it (holders: %s)", w.id, w.read, w.write, r.describe(hs))
		}
	}
	return "", ""
}

func (r *c15Run) describe(qs []*c15Req) string {
	var s []string
	for _, q := range qs {
		s = append(s, fmt.Sprintf("#%d r=%v w=%v", q.id, q.read, q.write))
	}
	return strings.Join(s, "; ")
}

type nopLog struct{}

func (nopLog) Debugf(string, ...any)                        {}
func (nopLog) Infof(string, ...any)                         {}
func (nopLog) Errorf(string, ...any)                        {}
func (nopLog) Debug(...any)                                 {}
func (nopLog) Info(...any)                                  {}
func (nopLog) Error(...any)                                 {}
func (l nopLog) WithFields(map[string]any) logging.Logger   { return l }
func (l nopLog) WithField(string, any) logging.Logger       { return l }
func (l nopLog) WithContext(context.Context) logging.Logger { return l }

// c15Execute interprets the action list once; returns a violation or "".
func c15Execute(actions []c15Action) (run *c15Run, sig, msg string) {
	r := &c15Run{locker: command.NewDefaultLocker()}
	all := []string{"a", "b", "c"}
	// whatever happens, no goroutine may stay blocked when the bubble ends
	defer func() {
		for _, q := range r.reqs {
			if q.hold != nil {
				select {
				case <-q.hold:
				default:
					close(q.hold)
				}
			}
			if q.holdEnq != nil {
				select {
				case <-q.holdEnq:
				default:
					close(q.holdEnq)
				}
			}
			q.cancel()
		}
		for i := 0; i < 100; i++ {
			synctest.Wait()
			r.kick()
		}
		synctest.Wait()
	}()
	check := func() bool {
		sig, msg = r.invariants()
		return sig == ""
	}
	for _, a := range actions {
		switch a.Kind {
		case "request":
			q := r.start(a.Read, a.Write, false, false)
			if r.state(q) == "waiting" {
				r.queued++
			}
		case "precancelled":
			q := r.start(a.Read, a.Write, false, true)
			// a request abandoned before it started may be granted directly (nothing to wait for) or fail; both are fine
			_ = q
		case "release":
			if hs := r.holders(); len(hs) > 0 {
				r.release(hs[a.Pick%len(hs)])
			}
		case "cancel":
			if ws := r.waiters(); len(ws) > 0 {
				w := ws[a.Pick%len(ws)]
				w.cancelled = true
				w.cancel()
				r.cancels++
				synctest.Wait()
				r.log = append(r.log, fmt.Sprintf("cancel #%d -> %s", w.id, r.state(w)))
			}
		case "enqueuerace":
			// hold a request between its failed attempt and its queueing, release its blocker
			// meanwhile, then let it queue: it must still be granted
			hs := r.holders()
			if len(hs) == 0 {
				continue
			}
			q := r.startMode(a.Read, a.Write, false, true, false)
			if r.state(q) != "parked-at-queue-gate" {
				close(q.holdEnq)
				synctest.Wait()
				break
			}
			r.enqRaces++
			relCtx := hookctx.With(logging.ContextWithLogger(context.Background(), nopLog{}), q)
			var released []*c15Req
			for _, h := range r.holders() {
				if conflicts(h, q) {
					h := h
					released = append(released, h)
					go func() {
						h.unlock(relCtx)
						h.mu.Lock()
						h.released = true
						h.mu.Unlock()
					}()
				}
			}
			synctest.Wait()
			close(q.holdEnq) // the request queues itself now
			synctest.Wait()
			q.mu.Lock()
			q.atGate = false
			q.mu.Unlock()
			// releases that had to wait for the locker's mutex go on; a contender that meets another
			// one inside the mutex parks again, so kick until all of them are through
			for i := 0; i < 100; i++ {
				r.kick()
				synctest.Wait()
				all := true
				for _, h := range released {
					if r.state(h) != "released" {
						all = false
					}
				}
				if all {
					break
				}
			}
			for _, h := range released {
				if st := r.state(h); st != "released" {
					return r, "C15/release-stuck", fmt.Sprintf("the release of request #%d did not complete", h.id)
				}
			}
			r.log = append(r.log, fmt.Sprintf("enqueuerace #%d (blockers released while it was between attempt and queue) -> %s", q.id, r.state(q)))
		case "grantrace", "cancelqueued":
			// a request that must queue: conflict with every current holder is not required, one is enough
			hs := r.holders()
			if len(hs) == 0 {
				continue
			}
			q := r.start(a.Read, a.Write, true, false)
			if r.state(q) != "parked-at-queue-gate" {
				// it was granted directly: nothing to race
				q.open()
				synctest.Wait()
				break
			}
			r.queued++
			var follower *c15Req
			if a.Kind == "grantrace" && a.Behind {
				// queue a second request behind it (same sets): if the raced request gives its grant back,
				// nobody but the locker itself can tell this one that the accounts are free
				follower = r.start(a.Read, a.Write, true, false)
				if r.state(follower) == "parked-at-queue-gate" {
					r.queued++
					follower.open()
					synctest.Wait()
					follower.mu.Lock()
					follower.atGate = false
					follower.mu.Unlock()
				} else {
					follower.open()
					synctest.Wait()
				}
			}
			if a.Kind == "grantrace" {
				// release its blockers so that it is granted while it has not reached the select yet ...
				for _, h := range r.holders() {
					if conflicts(h, q) {
						r.release(h)
					}
				}
				r.races++
			}
			// ... abandon it ...
			q.cancelled = true
			q.cancel()
			r.cancels++
			synctest.Wait()
			// ... and let it reach the select with both outcomes ready
			q.open()
			synctest.Wait()
			q.mu.Lock()
			q.atGate = false
			q.mu.Unlock()
			st := r.state(q)
			r.log = append(r.log, fmt.Sprintf("%s #%d -> %s", a.Kind, q.id, st))
			if st == "error" {
				r.raceWonByCancel++
			}
			if st == "waiting" || st == "parked-at-queue-gate" {
				return r, "C15/cancelled-still-waiting", fmt.Sprintf("request #%d was cancelled but its Lock call has not returned", q.id)
			}
		}
		if !check() {
			return r, sig, msg
		}
	}
	// drain: release holders until nobody holds and nobody waits
	for i := 0; i < 200; i++ {
		hs := r.holders()
		if len(hs) == 0 {
			break
		}
		for _, h := range hs {
			r.release(h)
		}
		if !check() {
			return r, sig, msg
		}
	}
	if ws := r.waiters(); len(ws) > 0 {
		return r, "C15/grantable-left-waiting", fmt.Sprintf("after every holder released, %d request(s) are still waiting: %s", len(ws), r.describe(ws))
	}
	// residue probe: with nothing held, a request for everything is granted directly even on a dead context
	ctx, cancel := context.WithCancel(logging.ContextWithLogger(context.Background(), nopLog{}))
	cancel()
	var perr error
	done := false
	go func() {
		_, perr = r.locker.Lock(ctx, command.Accounts{Write: all})
		done = true
	}()
	synctest.Wait()
	if !done || perr != nil {
		return r, "C15/residue", fmt.Sprintf("after all holders released and all requests returned, a probe for every account is not granted (done=%v err=%v): some lock was left behind", done, perr)
	}
	return r, "", ""
}

func c15GenActions(t *rapid.T) []c15Action {
	accs := []string{"a", "b", "c"}
	set := func(label string) []string {
		n := rapid.IntRange(0, 3).Draw(t, label+"N")
		out := make([]string, n)
		for i := range out {
			out[i] = rapid.SampledFrom(accs).Draw(t, label)
		}
		return out
	}
	n := rapid.IntRange(3, 24).Draw(t, "nActions")
	out := make([]c15Action, n)
	for i := range out {
		k := rapid.SampledFrom([]string{"request", "request", "request", "request", "release", "release", "release", "cancel", "grantrace", "grantrace", "cancelqueued", "precancelled", "enqueuerace", "enqueuerace"}).Draw(t, "kind")
		a := c15Action{Kind: k, Pick: rapid.IntRange(0, 7).Draw(t, "pick")}
		if k == "grantrace" {
			a.Behind = rapid.Bool().Draw(t, "behind")
		}
		if k != "release" && k != "cancel" {
			a.Read, a.Write = set("read"), set("write")
			if len(a.Read)+len(a.Write) == 0 && rapid.Bool().Draw(t, "notEmpty") {
				// (a request naming no account at all stays as it is half of the time: a transaction that only
				// touches @world asks for exactly that)
				a.Write = []string{rapid.SampledFrom(accs).Draw(t, "w1")}
			}
		}
		out[i] = a
	}
	return out
}

func TestC15(t *testing.T) {
	c := evid.New("C15")
	c.Rule = "action lists of 3-24 steps over accounts {a,b,c}: request(read set, write set; overlapping and duplicate entries allowed, both sets may be empty), release(a holder), cancel(a waiter), precancelled request, cancel-queued (cancel a queued request before it reaches its wait), grant-race (hold a queued request in front of its wait, optionally queue a second request with the same sets behind it, release its blockers so that it is granted, cancel it, let it go: both outcomes ready), enqueue-race (hold a request between its failed attempt and its queueing, release its blockers meanwhile, let it queue). Each list is executed 6 times on a fresh locker inside a synctest bubble (Go's select is random when both outcomes are ready). After every step: exclusion among Lock calls that have returned, no request left waiting that no holder blocks, cancelled requests return, errors only for cancelled requests; at the end: drain, nobody waits, and a probe for all accounts on an already-cancelled context is granted (only possible when nothing is left locked). Non-trivial = a list with a queued request and a cancellation, or a grant-race; distinct by action list."
	c.Assumptions = []string{"state is observed from outside (returned Lock calls); the locker's maps are never read", "the verifhook point lock.queued (between queueing and the select) is the only place where the harness delays the locker"}
	hookctx.Install()
	runProp(t, c, func(rt *rapid.T) {
		actions := c15GenActions(rt)
		var key strings.Builder
		for _, a := range actions {
			fmt.Fprintf(&key, "%s%v%v%d;", a.Kind, a.Read, a.Write, a.Pick)
		}
		var sig, msg string
		var last *c15Run
		repeats := 6
		for i := 0; i < repeats && sig == ""; i++ {
			// (a lock manager whose own mutex is left locked blocks goroutines in a way the bubble cannot see:
			// a run that does not come back within 30 s of real time -- it takes milliseconds -- is a hang)
			finished := c12Timed(30*time.Second, func() {
				synctest.Test(t, func(*testing.T) {
					last, sig, msg = c15Execute(actions)
				})
			})
			if !finished {
				last = &c15Run{log: []string{"the run did not come back"}}
				sig, msg = "C15/manager-hang", fmt.Sprintf("the lock manager stopped answering during %d actions: a request that was granted or abandoned left the manager itself locked", len(actions))
			}
		}
		labels := []string{}
		if last.queued > 0 {
			labels = append(labels, "queued")
		}
		if last.cancels > 0 {
			labels = append(labels, "cancel")
		}
		if last.enqRaces > 0 {
			labels = append(labels, "enqueue-race")
		}
		if last.races > 0 {
			labels = append(labels, "grant-race")
			if last.raceWonByCancel > 0 {
				labels = append(labels, "grant-race:cancel-won")
			}
		}
		sort.Strings(labels)
		c.Case(key.String(), (last.queued > 0 && last.cancels > 0) || last.races > 0 || last.enqRaces > 0, labels, func() any {
			return map[string]any{"actions": actions, "trace": last.log}
		})
		if sig != "" && !c.IsKnown(sig) {
			rt.Logf("trace:\n%s", strings.Join(last.log, "\n"))
			violation(rt, c, sig, "%s", msg)
		}
	})
}
