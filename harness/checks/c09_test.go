package checks

// C09 Posting-mode transactions commit exactly the requested postings, through
// four entry points over a real Commander and the model store.

import (
	"context"
	"encoding/json"
	"fmt"
	"math/big"
	"strings"
	"testing"
	"time"

	ledger "github.com/formancehq/ledger/internal"
	"github.com/formancehq/ledger/internal/api/backend"
	"github.com/formancehq/ledger/internal/engine/command"
	"github.com/formancehq/ledger/verifharness/enginesim"
	"github.com/formancehq/ledger/verifharness/evid"
	"github.com/formancehq/ledger/verifharness/gen"
	"github.com/formancehq/ledger/verifharness/httpsim"
	"github.com/formancehq/stack/libs/go-libs/logging"
	"github.com/formancehq/stack/libs/go-libs/metadata"
	"pgregory.net/rapid"
)

type c09Posting struct {
	Source, Destination, Asset string
	Amount                     *big.Int
}

type c09Response struct {
	OK       bool
	Status   int
	Postings []c09Posting
	Metadata map[string]string
	Ref      string
	TS       string
	ID       string
	Raw      string
}

const c09LeadAsset = "LEADASSET"

func c09LeadTS(i int) string { return fmt.Sprintf("199%d-02-03T04:05:06Z", i) }

// c09Snapshot is the balance table without what the lead elements of a bulk move.
func c09Snapshot(store *enginesim.ModelStore) map[string]string {
	out := store.FoldNow().Snapshot()
	for k := range out {
		if strings.HasSuffix(k, "/"+c09LeadAsset) {
			delete(out, k)
		}
	}
	return out
}

func c09FromTx(tx *ledger.Transaction) c09Response {
	r := c09Response{OK: true, Metadata: map[string]string{}, Ref: tx.Reference, TS: tx.Timestamp.Format(ledger.DateFormat), ID: tx.ID.String()}
	for _, p := range tx.Postings {
		r.Postings = append(r.Postings, c09Posting{p.Source, p.Destination, p.Asset, p.Amount})
	}
	for k, v := range tx.Metadata {
		r.Metadata[k] = v
	}
	return r
}

func c09FromJSON(raw json.RawMessage, idField string) (c09Response, error) {
	var tx struct {
		Postings []struct {
			Source      string      `json:"source"`
			Destination string      `json:"destination"`
			Asset       string      `json:"asset"`
			Amount      json.Number `json:"amount"`
		} `json:"postings"`
		Metadata  map[string]string `json:"metadata"`
		Reference string            `json:"reference"`
		Timestamp string            `json:"timestamp"`
		ID        json.Number       `json:"id"`
		TxID      json.Number       `json:"txid"`
	}
	dec := json.NewDecoder(strings.NewReader(string(raw)))
	dec.UseNumber()
	if err := dec.Decode(&tx); err != nil {
		return c09Response{}, err
	}
	r := c09Response{OK: true, Metadata: tx.Metadata, Ref: tx.Reference, TS: tx.Timestamp, ID: tx.ID.String()}
	if idField == "txid" {
		r.ID = tx.TxID.String()
	}
	if r.Metadata == nil {
		r.Metadata = map[string]string{}
	}
	for _, p := range tx.Postings {
		a, ok := new(big.Int).SetString(p.Amount.String(), 10)
		if !ok {
			return r, fmt.Errorf("amount %q is not an integer", p.Amount)
		}
		r.Postings = append(r.Postings, c09Posting{p.Source, p.Destination, p.Asset, a})
	}
	return r, nil
}

func TestC09(t *testing.T) {
	c := evid.New("C09")
	c.Rule = "lists of 1-8 postings (one case in eight: 9-36 postings over 9-30 distinct accounts): accounts from the full address grammar (segments with - _ :, world on either side, self-transfers), assets from the full asset grammar, amounts {0,1,..,2^63-1,2^63,2^64,10^k,random >64-bit}, repeated accounts and repeated (amount, asset) pairs, chains where posting k spends what posting k-1 delivered; metadata, reference, explicit timestamps (any zone, 0-9 fractional digits) or none; starting balances seeded by funding transactions; invalid variants (negative amount, malformed address or asset, one bad posting in the middle, insufficient funds). Four entry points over a real Commander + model store: Commander.CreateTransaction(TxToScriptData), POST /v2/{l}/transactions, POST /{l}/transactions (v1), a CREATE_TRANSACTION bulk element (which follows 0-2 other CREATE_TRANSACTION elements with metadata, reference and timestamp of their own: nothing of theirs may reach it, a request without reference is never answered CONFLICT, a request without timestamp never carries another element's). One case in 30 is parallel: 10-40 rounds of 2-8 real goroutines submit posting lists of six different shapes over private accounts at the same time; every answer must carry its own request's postings. Oracle: success => the answer and the single new NEW_TRANSACTION log entry contain exactly the requested postings (no normalisation), metadata, reference and instant (microseconds); failure => error answer, no entry, balances unchanged. Non-trivial = >=3 postings with a repeated account or repeated monetary, or a chain, or a zero / >64-bit amount; distinct by (entry point, postings, balances)."
	c.Assumptions = []string{"the PostgreSQL store is replaced by the model store (harness/enginesim); one request at a time, except in the parallel family, whose schedule is the operating system's (a miss proves nothing there, a hit is a defect)"}
	runProp(t, c, func(rt *rapid.T) {
		if rapid.IntRange(0, 29).Draw(rt, "parallelFamily") == 0 {
			c09Parallel(rt, c)
			return
		}
		store, commander, stop := enginesim.Standalone()
		defer stop()
		ctx := logging.ContextWithLogger(context.Background(), nopLog{})
		entry := rapid.SampledFrom([]string{"commander", "v2", "v1", "bulk"}).Draw(rt, "entry")
		// accounts
		pool := []string{"world"}
		nAcc := rapid.IntRange(1, 4).Draw(rt, "nAcc")
		many := rapid.IntRange(0, 7).Draw(rt, "manyAccounts") == 0
		if many {
			// more distinct accounts than fingers: whatever numbers, names or sorts them must keep them apart
			nAcc = rapid.IntRange(9, 30).Draw(rt, "nAccMany")
		}
		for i := 0; i < nAcc; i++ {
			a := gen.Address().Draw(rt, "acc")
			if many {
				a = fmt.Sprintf("%s:%03d", a, i) // distinct by construction
			}
			pool = append(pool, a)
		}
		assets := []string{gen.Asset().Draw(rt, "asset1"), gen.Asset().Draw(rt, "asset2")}
		// seed balances
		seeded := 0
		for _, a := range pool[1:] {
			if many {
				break // world pays everybody in this class: no starting balances needed
			}
			for _, as := range assets {
				if rapid.IntRange(0, 2).Draw(rt, "seed") == 0 {
					continue
				}
				amt := gen.Amount().Draw(rt, "seedAmt")
				if rapid.IntRange(0, 2).Draw(rt, "richSeed") > 0 {
					amt = new(big.Int).Add(amt, new(big.Int).Lsh(big.NewInt(1), 66))
				}
				_, err := commander.CreateTransaction(ctx, command.Parameters{}, ledger.TxToScriptData(ledger.TransactionData{Postings: ledger.Postings{ledger.NewPosting("world", a, as, amt)}}, false))
				if err != nil {
					harnessError(rt, "seeding failed: %v", err)
				}
				seeded++
			}
		}
		before := c09Snapshot(store)
		// the request
		n := rapid.IntRange(1, 8).Draw(rt, "nPostings")
		if many {
			n = rapid.IntRange(nAcc, nAcc+6).Draw(rt, "nPostingsMany")
		}
		var ps []c09Posting
		invalid := ""
		for i := 0; i < n; i++ {
			p := c09Posting{Source: rapid.SampledFrom(pool).Draw(rt, "src"), Destination: rapid.SampledFrom(pool).Draw(rt, "dst"), Asset: rapid.SampledFrom(assets).Draw(rt, "asset"), Amount: gen.Amount().Draw(rt, "amount")}
			if many {
				// world pays every account of the pool in turn
				p.Source, p.Destination = "world", pool[1+i%(len(pool)-1)]
			}
			if rapid.Bool().Draw(rt, "smallAmount") {
				p.Amount = big.NewInt(int64(rapid.IntRange(0, 100).Draw(rt, "small")))
			}
			if i > 0 && rapid.IntRange(0, 2).Draw(rt, "chain") == 0 {
				// spend what the previous posting delivered
				p.Source, p.Asset, p.Amount = ps[i-1].Destination, ps[i-1].Asset, ps[i-1].Amount
			}
			if i > 0 && rapid.IntRange(0, 3).Draw(rt, "repeat") == 0 {
				p.Asset, p.Amount = ps[0].Asset, ps[0].Amount
			}
			ps = append(ps, p)
		}
		if n >= 2 && rapid.IntRange(0, 3).Draw(rt, "nearCollision") == 0 {
			// two different (asset, amount) pairs whose textual concatenations coincide
			// (USD/2 51 vs USD/25 1; COIN 12 vs COIN1 2): anything that keys postings by text must keep them apart
			base := rapid.SampledFrom([]string{"USD/2", "COIN", "X", "EUR/1", "A1"}).Draw(rt, "ncBase")
			d := rapid.SampledFrom([]string{"1", "5", "12", "0"}).Draw(rt, "ncDigits")
			amt2 := fmt.Sprint(rapid.IntRange(0, 99).Draw(rt, "ncAmt"))
			a1, _ := new(big.Int).SetString(d+amt2, 10)
			a2, _ := new(big.Int).SetString(amt2, 10)
			i, j := 0, 1+rapid.IntRange(0, n-2).Draw(rt, "ncPos")
			ps[i].Asset, ps[i].Amount, ps[i].Source = base, a1, "world"
			ps[j].Asset, ps[j].Amount, ps[j].Source = base+d, a2, "world"
			if rapid.Bool().Draw(rt, "ncSwap") {
				ps[i], ps[j] = ps[j], ps[i]
			}
		}
		if rapid.IntRange(0, 5).Draw(rt, "invalid") == 0 {
			k := rapid.IntRange(0, n-1).Draw(rt, "badIdx")
			invalid = rapid.SampledFrom([]string{"negative", "address", "asset", "address-space", "asset-lower"}).Draw(rt, "badKind")
			switch invalid {
			case "negative":
				ps[k].Amount = big.NewInt(-int64(rapid.IntRange(1, 50).Draw(rt, "neg")))
			case "address":
				ps[k].Destination = rapid.SampledFrom([]string{"a--b", "", "a:", ":a", "a b", "é"}).Draw(rt, "badAddr")
			case "address-space":
				ps[k].Source = "a b"
			case "asset":
				ps[k].Asset = rapid.SampledFrom([]string{"usd", "", "US D", "USD/1234567", "1USD", "USD/", "ABCDEFGHIJKLMNOPQRS"}).Draw(rt, "badAsset")
			case "asset-lower":
				ps[k].Asset = "Usd"
			}
		}
		md := map[string]string{}
		for i, k := 0, rapid.IntRange(0, 3).Draw(rt, "nMeta"); i < k; i++ {
			md[rapid.StringMatching(`[a-zA-Z0-9_./-]{1,6}`).Draw(rt, "mk")] = gen.MetaString().Draw(rt, "mv")
		}
		ref := ""
		if rapid.Bool().Draw(rt, "hasRef") {
			ref = rapid.StringMatching(`[a-zA-Z0-9_-]{1,10}`).Draw(rt, "ref")
			if rapid.IntRange(0, 9).Draw(rt, "oddRef") == 0 {
				ref = rapid.SampledFrom([]string{" ", "\t", " r ", "r\n", "é", "0", "null"}).Draw(rt, "oddRefValue")
			}
		}
		tsText := ""
		if rapid.Bool().Draw(rt, "hasTS") {
			tsText = gen.TimestampString().Draw(rt, "ts")
			if raw, perr := time.Parse(time.RFC3339Nano, tsText); perr == nil && raw.Round(time.Microsecond).Year() > 9999 {
				// rounds past the last year the date format can spell: not a timestamp the API accepts
				tsText = "9999-12-31T23:59:59.999999Z"
			}
			if ts, err := ledger.ParseTime(tsText); err == nil && ts.IsZero() && c.HasKnown("C09/timestamp/zero-instant") {
				// excluded by construction (listed known finding), counted
				c.Excluded("C09/timestamp/zero-instant")
				tsText = "0001-01-01T00:00:00.000001Z"
			}
		}
		// JSON body shared by the HTTP entry points
		type jp struct {
			Source      string   `json:"source"`
			Destination string   `json:"destination"`
			Asset       string   `json:"asset"`
			Amount      *big.Int `json:"amount"`
		}
		body := map[string]any{"metadata": md}
		var jps []jp
		for _, p := range ps {
			jps = append(jps, jp{p.Source, p.Destination, p.Asset, p.Amount})
		}
		body["postings"] = jps
		if ref != "" {
			body["reference"] = ref
		}
		if tsText != "" {
			body["timestamp"] = tsText
		}
		bodyJSON, _ := json.Marshal(body)

		be := httpsim.NewFakeBackend()
		be.Override = func(name string) backend.Ledger {
			return &httpsim.EngineLedger{FakeLedger: &httpsim.FakeLedger{Name: name}, Commander: commander}
		}
		router := httpsim.NewRouter(be, false)
		var resp c09Response
		nLead, bulkBody, bulkErrorCode := 0, "", ""
		hdr := map[string]string{"Content-Type": "application/json"}
		switch entry {
		case "commander":
			var lp ledger.Postings
			for _, p := range ps {
				lp = append(lp, ledger.NewPosting(p.Source, p.Destination, p.Asset, p.Amount))
			}
			var ts ledger.Time
			if tsText != "" {
				ts, _ = ledger.ParseTime(tsText)
			}
			var tx *ledger.Transaction
			var err error
			if pn := safely(func() {
				tx, err = commander.CreateTransaction(ctx, command.Parameters{}, ledger.TxToScriptData(ledger.TransactionData{Postings: lp, Metadata: metadata.Metadata(md), Reference: ref, Timestamp: ts}, false))
			}); pn != nil {
				resp = c09Response{Raw: fmt.Sprint("panic: ", pn)}
			} else if err != nil {
				resp = c09Response{Raw: err.Error()}
			} else {
				resp = c09FromTx(tx)
			}
		case "v2", "v1":
			path := "/api/ledger/v2/l1/transactions"
			if entry == "v1" {
				path = "/api/ledger/l1/transactions"
			}
			rec := httpsim.Serve(router, "POST", path, hdr, string(bodyJSON))
			resp = c09Response{Status: rec.Code, Raw: rec.Body.String()}
			if rec.Code < 300 {
				var env struct {
					Data json.RawMessage `json:"data"`
				}
				_ = json.Unmarshal(rec.Body.Bytes(), &env)
				raw, idf := env.Data, "id"
				if entry == "v1" {
					var arr []json.RawMessage
					_ = json.Unmarshal(env.Data, &arr)
					if len(arr) == 1 {
						raw = arr[0]
					}
					idf = "txid"
				}
				r, err := c09FromJSON(raw, idf)
				if err != nil {
					violation(rt, c, "C09/response-undecodable", "%s answered %d with a body that does not decode: %v: %s", entry, rec.Code, err, clip(rec.Body.String()))
					return
				}
				resp = r
				resp.Status, resp.Raw = rec.Code, rec.Body.String()
			}
		case "bulk":
			// the element under test may follow other CREATE_TRANSACTION elements of the same request, each with
			// metadata, reference and timestamp of its own: nothing of theirs may end up in it
			var elems []map[string]any
			if assets[0] != c09LeadAsset && assets[1] != c09LeadAsset {
				nLead = rapid.IntRange(0, 2).Draw(rt, "nLead")
			}
			for i := 0; i < nLead; i++ {
				lead := map[string]any{"postings": []jp{{"world", fmt.Sprintf("zz_leadsink:%d", i), c09LeadAsset, big.NewInt(int64(7 + i))}}}
				if rapid.Bool().Draw(rt, "leadMeta") {
					lead["metadata"] = map[string]string{fmt.Sprintf("lead.%d", i): "x"}
				}
				if rapid.Bool().Draw(rt, "leadRef") {
					lead["reference"] = fmt.Sprintf("lead.ref.%d", i)
				}
				if rapid.Bool().Draw(rt, "leadTS") {
					lead["timestamp"] = c09LeadTS(i)
				}
				elems = append(elems, map[string]any{"action": "CREATE_TRANSACTION", "data": lead})
			}
			elems = append(elems, map[string]any{"action": "CREATE_TRANSACTION", "data": json.RawMessage(bodyJSON)})
			b, _ := json.Marshal(elems)
			bulkBody = string(b)
			rec := httpsim.Serve(router, "POST", "/api/ledger/v2/l1/_bulk", hdr, string(b))
			resp = c09Response{Status: rec.Code, Raw: rec.Body.String()}
			{
				var env struct {
					Data []struct {
						ResponseType string `json:"responseType"`
						ErrorCode    string `json:"errorCode"`
					} `json:"data"`
				}
				_ = json.Unmarshal(rec.Body.Bytes(), &env)
				for i := 0; i < nLead; i++ {
					if i >= len(env.Data) || env.Data[i].ResponseType != "CREATE_TRANSACTION" {
						// a lead element is valid by construction (paid by @world, a reference no other request carries)
						if !c.IsKnown("C09/bulk/lead-refused") {
							violation(rt, c, "C09/bulk/lead-refused", "element %d of the bulk, a valid transaction paid by @world with a reference of its own, was refused: %s", i, clip(rec.Body.String()))
						}
						return
					}
				}
				seeded += nLead
				if len(env.Data) == nLead+1 {
					bulkErrorCode = env.Data[nLead].ErrorCode
				}
			}
			if rec.Code < 300 {
				var env struct {
					Data []struct {
						ResponseType string          `json:"responseType"`
						Data         json.RawMessage `json:"data"`
					} `json:"data"`
				}
				_ = json.Unmarshal(rec.Body.Bytes(), &env)
				if len(env.Data) == nLead+1 && env.Data[nLead].ResponseType == "CREATE_TRANSACTION" {
					r, err := c09FromJSON(env.Data[nLead].Data, "id")
					if err != nil {
						violation(rt, c, "C09/response-undecodable", "bulk answered with a body that does not decode: %v: %s", err, clip(rec.Body.String()))
						return
					}
					resp = r
					resp.Status, resp.Raw = rec.Code, rec.Body.String()
				}
			}
		}
		entries := store.Entries
		newEntries := len(entries) - seeded
		// labels
		var key strings.Builder
		repeated, chain, special := false, false, false
		seenAcc, seenMon := map[string]bool{}, map[string]bool{}
		for i, p := range ps {
			fmt.Fprintf(&key, "%s>%s %s %s;", p.Source, p.Destination, p.Asset, p.Amount)
			if seenAcc[p.Source] || seenAcc[p.Destination] {
				repeated = true
			}
			seenAcc[p.Source], seenAcc[p.Destination] = true, true
			m := p.Asset + p.Amount.String()
			if seenMon[m] {
				repeated = true
			}
			seenMon[m] = true
			if i > 0 && p.Source == ps[i-1].Destination && p.Source != "world" {
				chain = true
			}
			if p.Amount.Sign() == 0 || p.Amount.BitLen() > 64 {
				special = true
			}
		}
		labels := []string{"entry:" + entry, fmt.Sprintf("ok:%v", resp.OK)}
		if entry == "bulk" {
			labels = append(labels, fmt.Sprintf("bulk-lead-elements:%d", nLead))
		}
		if invalid != "" {
			labels = append(labels, "invalid:"+invalid)
		}
		if chain {
			labels = append(labels, "chain")
		}
		c.Case(evid.Key(entry, fmt.Sprint(nLead), key.String(), fmt.Sprint(before), ref, tsText), (n >= 3 && repeated) || chain || special, labels, func() any {
			return map[string]any{"entry": entry, "request": json.RawMessage(bodyJSON), "balancesBefore": before, "answer": clip(resp.Raw), "ok": resp.OK}
		})
		fail := func(sig, format string, args ...any) {
			if c.IsKnown(sig) {
				return
			}
			if bulkBody != "" {
				rt.Logf("bulk body: %s", clip(bulkBody))
			}
			rt.Logf("entry=%s request=%s\nbalances before: %v\nanswer (%d): %s", entry, clip(string(bodyJSON)), before, resp.Status, clip(resp.Raw))
			violation(rt, c, sig, format, args...)
		}
		if !resp.OK {
			if newEntries != 0 {
				fail("C09/rejected-but-committed", "the request was rejected but %d log entr(y/ies) were written", newEntries)
				return
			}
			if bulkErrorCode == "CONFLICT" && ref == "" {
				fail("C09/reference", "a request without a reference was refused with CONFLICT")
				return
			}
			if fmt.Sprint(c09Snapshot(store)) != fmt.Sprint(before) {
				fail("C09/rejected-but-balances-changed", "the request was rejected but balances changed")
			}
			if strings.HasPrefix(resp.Raw, "panic: ") {
				fail("C09/panic", "the engine panicked: %s", clip(resp.Raw))
			}
			return
		}
		if invalid != "" {
			fail("C09/invalid-accepted/"+invalid, "a request with an invalid posting (%s) was accepted", invalid)
			return
		}
		if newEntries != 1 {
			fail("C09/entry-count", "the request succeeded and %d log entries were written", newEntries)
			return
		}
		p, ok := entries[len(entries)-1].Log.Data.(ledger.NewTransactionLogPayload)
		if !ok {
			fail("C09/entry-kind", "the new log entry is not a NEW_TRANSACTION")
			return
		}
		committed := c09FromTx(p.Transaction)
		for what, got := range map[string]c09Response{"answer": resp, "committed transaction": committed} {
			if len(got.Postings) != len(ps) {
				fail("C09/postings-count", "the %s has %d postings, the request %d", what, len(got.Postings), len(ps))
				return
			}
			for i, q := range ps {
				g := got.Postings[i]
				if g.Source != q.Source || g.Destination != q.Destination || g.Asset != q.Asset || g.Amount.Cmp(q.Amount) != 0 {
					fail("C09/posting-differs", "posting %d of the %s is %s->%s %s %v, the request says %s->%s %s %v", i, what, g.Source, g.Destination, g.Asset, g.Amount, q.Source, q.Destination, q.Asset, q.Amount)
					return
				}
			}
			if !sameStringMap(got.Metadata, md) {
				fail("C09/metadata", "the %s carries metadata %v, the request %v", what, got.Metadata, md)
				return
			}
			if got.Ref != ref {
				fail("C09/reference", "the %s carries reference %q, the request %q", what, got.Ref, ref)
				return
			}
			if tsText == "" {
				// nothing supplied: the engine dates the transaction itself -- never with the instant of another element
				for i := 0; i < nLead; i++ {
					lt, _ := ledger.ParseTime(c09LeadTS(i))
					if have, err := ledger.ParseTime(got.TS); err == nil && have.Equal(lt) {
						fail("C09/timestamp", "the %s carries timestamp %s, which is the timestamp of element %d of the same bulk; the request supplied none", what, got.TS, i)
						return
					}
				}
			}
			if tsText != "" {
				want, _ := ledger.ParseTime(tsText)
				have, err := ledger.ParseTime(got.TS)
				if want.IsZero() && err == nil && !have.Equal(want) {
					// listed known finding: the zero instant is taken for "no timestamp supplied"
					fail("C09/timestamp/zero-instant", "the %s carries timestamp %s, the request %s (the zero instant is treated as absent)", what, got.TS, tsText)
					return
				}
				if err != nil || !have.Equal(want) {
					fail("C09/timestamp", "the %s carries timestamp %s, the request %s", what, got.TS, tsText)
					return
				}
			}
		}
		if resp.ID != committed.ID {
			fail("C09/id", "the answer names transaction %s, the committed one is %s", resp.ID, committed.ID)
		}
	})
}
