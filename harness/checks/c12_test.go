package checks

// C12 No script, variable map or ledger state can crash the engine.

import (
	"context"
	"encoding/json"
	"errors"
	"fmt"
	"math/big"
	"regexp"
	"strings"
	"testing"
	"time"

	ledger "github.com/formancehq/ledger/internal"
	"github.com/formancehq/ledger/internal/engine/command"
	"github.com/formancehq/ledger/verifharness/enginesim"
	"github.com/formancehq/ledger/verifharness/evid"
	"github.com/formancehq/ledger/verifharness/numgen"
	"github.com/formancehq/stack/libs/go-libs/logging"
	"github.com/formancehq/stack/libs/go-libs/metadata"
	"pgregory.net/rapid"
)

type c12Outcome struct {
	Class    string
	Stage    string
	Panic    string
	ErrText  string
	Postings string
	Meta     string
	Parsed   bool // the compiler accepted the text (the VM stages were reached)
}

func (o c12Outcome) key() string { return o.Class + "|" + o.Postings + "|" + o.Meta }

// c12Exec drives every stage, rendering every error it meets (the API does).
func c12Exec(text string, env *numgen.Env, cc *command.Compiler) (out c12Outcome) {
	var compile compileFn
	if cc != nil {
		compile = cc.Compile
	}
	r := runImpl(text, env, compile)
	out.Class, out.Stage = r.Class, r.PanicStage
	out.Parsed = r.Class != "compile-reject" && !(r.Class == "panic" && r.PanicStage == "compile")
	if r.Class == "panic" {
		out.Panic = fmt.Sprint(r.Panic)
		return out
	}
	if r.Err != nil {
		if p := safely(func() { out.ErrText = r.Err.Error() }); p != nil {
			out.Class, out.Stage, out.Panic = "panic", "error-rendering", fmt.Sprint(p)
			return out
		}
	}
	out.Postings = numgen.PostingsString(r.Postings)
	out.Meta = fmt.Sprint(r.TxMeta, r.AccountMeta)
	return out
}

var digitsRe = regexp.MustCompile(`[0-9]+`)
var quotedRe = regexp.MustCompile(`'[^']*'|"[^"]*"`)

func panicClass(msg string) string {
	msg = firstLine(msg)
	msg = quotedRe.ReplaceAllString(msg, "_")
	msg = digitsRe.ReplaceAllString(msg, "N")
	if len(msg) > 70 {
		msg = msg[:70]
	}
	return strings.TrimSpace(msg)
}

// c12Timed runs f with a watchdog; ok=false means the budget expired.
func c12Timed(d time.Duration, f func()) (ok bool) {
	done := make(chan struct{})
	go func() {
		defer close(done)
		f()
	}()
	select {
	case <-done:
		return true
	case <-time.After(d):
		return false
	}
}

var tokenRe = regexp.MustCompile(`\s+|[A-Za-z_$@][A-Za-z0-9_:\-]*|[0-9]+|.`)

var hostileTokens = []string{
	"send", "source", "destination", "max", "from", "to", "kept", "remaining", "allowing overdraft up to", "allowing unbounded overdraft",
	"vars", "account", "monetary", "portion", "number", "asset", "string", "meta", "balance", "save", "print", "fail", "set_tx_meta", "set_account_meta",
	"(", ")", "{", "}", "[", "]", "=", "*", "+", "-", ",", "\n", "\r\n", "\r", "\t", " ", "\x00", "é", "🙂", "\"", "\"\"", "%", "/", "//", "/*", "*/",
	"@world", "@a", "@", "$x", "$", "USD", "EUR/2", "A/B/C", "0", "1", "18446744073709551616", "99999999999999999999999999999999999999999999",
	"1/0", "0/0", "3/2", "100%", "101%", "0.0000000001%", "1 / 3", "[USD 1]", "[USD *]", "[$x 1]", "[USD -1]",
}

func c12MutateText(t *rapid.T, text string) string {
	toks := tokenRe.FindAllString(text, -1)
	if len(toks) == 0 {
		toks = []string{""}
	}
	n := rapid.IntRange(1, 4).Draw(t, "nMut")
	for i := 0; i < n; i++ {
		pos := rapid.IntRange(0, len(toks)-1).Draw(t, "pos")
		switch rapid.IntRange(0, 6).Draw(t, "mut") {
		case 0: // delete
			toks = append(toks[:pos:pos], toks[pos+1:]...)
			if len(toks) == 0 {
				toks = []string{""}
			}
		case 1: // duplicate
			toks = append(toks[:pos+1:pos+1], toks[pos:]...)
		case 2: // swap
			if pos+1 < len(toks) {
				toks[pos], toks[pos+1] = toks[pos+1], toks[pos]
			}
		case 3, 4: // replace
			toks[pos] = rapid.SampledFrom(hostileTokens).Draw(t, "tok")
		case 5: // insert
			toks = append(toks[:pos:pos], append([]string{rapid.SampledFrom(hostileTokens).Draw(t, "ins")}, toks[pos:]...)...)
		case 6: // truncate
			toks = toks[:pos+1]
		}
	}
	return strings.Join(toks, "")
}

// c12Loosen replaces expressions of a typed program by arbitrary ones, so that
// the result is syntactically valid but not necessarily meaningful.
func c12Loosen(t *rapid.T, p *numgen.Program) {
	anyExpr := func() numgen.Expr {
		switch rapid.IntRange(0, 9).Draw(t, "looseKind") {
		case 0:
			return numgen.LitAccount{Name: rapid.SampledFrom([]string{"a", "world", "b", "x-y:z_1", "nobody"}).Draw(t, "lacc")}
		case 1:
			return numgen.LitAsset{Name: rapid.SampledFrom([]string{"USD", "EUR/2", "X", "A/B/C", "123"}).Draw(t, "lasset")}
		case 2:
			return numgen.LitNumber{V: big.NewInt(int64(rapid.IntRange(0, 100).Draw(t, "lnum")))}
		case 3:
			return numgen.LitString{S: "s"}
		case 4:
			return numgen.LitPortion{Text: rapid.SampledFrom([]string{"1/2", "0/1", "100%", "3/2", "1/0", "150%"}).Draw(t, "lpor")}
		case 5:
			return numgen.LitMonetary{Asset: numgen.LitAsset{Name: "USD"}, Amount: big.NewInt(int64(rapid.IntRange(0, 100).Draw(t, "lmon")))}
		case 6:
			return numgen.VarRef{Name: rapid.SampledFrom([]string{"acc1", "m1", "p1", "ghost", "n1", "ast1"}).Draw(t, "lvar")}
		case 7:
			return numgen.BinOp{Op: '-', L: numgen.LitNumber{V: big.NewInt(1)}, R: numgen.LitNumber{V: big.NewInt(2)}}
		case 8:
			return numgen.BinOp{Op: '-', L: numgen.LitMonetary{Asset: numgen.LitAsset{Name: "USD"}, Amount: big.NewInt(1)}, R: numgen.LitMonetary{Asset: numgen.LitAsset{Name: "EUR/2"}, Amount: big.NewInt(2)}}
		default:
			return numgen.LitMonetary{Asset: numgen.VarRef{Name: "ast1"}, Amount: big.NewInt(3)}
		}
	}
	badPortions := func(n int) []numgen.Portion {
		out := make([]numgen.Portion, n)
		for i := range out {
			switch rapid.IntRange(0, 3).Draw(t, "bp") {
			case 0:
				out[i] = numgen.Portion{Kind: numgen.PRemaining}
			case 1:
				out[i] = numgen.Portion{Kind: numgen.PVar, Text: rapid.SampledFrom([]string{"p1", "acc1", "ghost"}).Draw(t, "bpv")}
			default:
				out[i] = numgen.Portion{Kind: numgen.PConst, Text: rapid.SampledFrom([]string{"1/2", "1/3", "90%", "3/2", "0/5", "1/0"}).Draw(t, "bpc")}
			}
		}
		return out
	}
	for i, st := range p.Stmts {
		if rapid.IntRange(0, 2).Draw(t, "loosen") != 0 {
			continue
		}
		switch s := st.(type) {
		case numgen.Send:
			switch rapid.IntRange(0, 7).Draw(t, "where") {
			case 7:
				// one designation named several times in an ordered list (directly, nested or under a cap): a literal,
				// a plain variable, or an account looked up from metadata
				var d numgen.Expr
				switch rapid.IntRange(0, 3).Draw(t, "repeatedKind") {
				case 0:
					d = numgen.LitAccount{Name: rapid.SampledFrom([]string{"a", "b", "world"}).Draw(t, "repLit")}
				case 1:
					d = numgen.VarRef{Name: rapid.SampledFrom([]string{"acc1", "acc2", "ghost"}).Draw(t, "repVar")}
				default:
					declared := false
					for _, v := range p.Vars {
						if v.Name == "macc" {
							declared = true
						}
					}
					if !declared {
						p.Vars = append(p.Vars, numgen.VarDecl{Type: numgen.TAccount, Name: "macc", Origin: numgen.MetaOrigin{Acc: numgen.LitAccount{Name: "cfg"}, Key: "src"}})
					}
					d = numgen.VarRef{Name: "macc"}
				}
				srcs := []numgen.Source{numgen.SrcAccount{Acc: d}}
				if rapid.Bool().Draw(t, "repBetween") {
					srcs = append(srcs, numgen.SrcAccount{Acc: anyExpr()})
				}
				var again numgen.Source = numgen.SrcAccount{Acc: d}
				switch rapid.IntRange(0, 3).Draw(t, "repShape") {
				case 0:
					again = numgen.SrcInOrder{Srcs: []numgen.Source{again}}
				case 1:
					again = numgen.SrcMax{Max: numgen.LitMonetary{Asset: numgen.LitAsset{Name: "USD"}, Amount: big.NewInt(5)}, Src: again}
				}
				s.Src = numgen.SrcInOrder{Srcs: append(srcs, again)}
			case 0:
				s.Amount, s.AllAsset = anyExpr(), nil
			case 1:
				s.Amount, s.AllAsset = nil, anyExpr()
			case 2:
				s.Src = numgen.SrcAccount{Acc: anyExpr(), Overdraft: &numgen.Overdraft{Amount: anyExpr()}}
			case 3:
				s.Dest = numgen.DestAccount{Acc: anyExpr()}
			case 4:
				n := rapid.IntRange(1, 3).Draw(t, "nbp")
				al := numgen.SrcAllotment{Portions: badPortions(n)}
				for k := 0; k < n; k++ {
					al.Srcs = append(al.Srcs, numgen.SrcAccount{Acc: anyExpr()})
				}
				s.Src = al
			case 5:
				n := rapid.IntRange(1, 3).Draw(t, "nbp")
				d := numgen.DestAllotment{Portions: badPortions(n)}
				for k := 0; k < n; k++ {
					d.KDs = append(d.KDs, numgen.KeptOrDest{Kept: rapid.Bool().Draw(t, "k"), Dest: numgen.DestAccount{Acc: anyExpr()}})
				}
				s.Dest = d
			case 6:
				s.Src = numgen.SrcMax{Max: anyExpr(), Src: numgen.SrcInOrder{Srcs: []numgen.Source{numgen.SrcAccount{Acc: anyExpr()}, numgen.SrcAccount{Acc: anyExpr(), Overdraft: &numgen.Overdraft{Unbounded: true}}}}}
			}
			p.Stmts[i] = s
		case numgen.Save:
			s.Acc = anyExpr()
			if rapid.Bool().Draw(t, "saveExpr") {
				s.Amount, s.AllAsset = anyExpr(), nil
			}
			p.Stmts[i] = s
		case numgen.SetTxMeta:
			s.Value = anyExpr()
			p.Stmts[i] = s
		case numgen.SetAccountMeta:
			s.Acc, s.Value = anyExpr(), anyExpr()
			p.Stmts[i] = s
		}
	}
	if rapid.IntRange(0, 3).Draw(t, "extraStmt") == 0 {
		extra := []numgen.Stmt{numgen.Print{E: anyExpr()}, numgen.Fail{}, numgen.Save{Amount: anyExpr(), Acc: anyExpr()}, numgen.Save{AllAsset: anyExpr(), Acc: anyExpr()}, numgen.SetAccountMeta{Acc: anyExpr(), Key: "k", Value: anyExpr()}}
		p.Stmts = append(p.Stmts, rapid.SampledFrom(extra).Draw(t, "extra"))
	}
	if rapid.IntRange(0, 3).Draw(t, "extraVar") == 0 {
		ty := rapid.SampledFrom([]numgen.Type{numgen.TAccount, numgen.TAsset, numgen.TNumber, numgen.TString, numgen.TMonetary, numgen.TPortion}).Draw(t, "evTy")
		var o numgen.Origin
		switch rapid.IntRange(0, 2).Draw(t, "evOrigin") {
		case 1:
			o = numgen.MetaOrigin{Acc: anyExpr(), Key: "k"}
		case 2:
			o = numgen.BalanceOrigin{Acc: anyExpr(), Asset: anyExpr()}
		}
		p.Vars = append(p.Vars, numgen.VarDecl{Type: ty, Name: rapid.SampledFrom([]string{"extra", "acc1", "m1"}).Draw(t, "evName"), Origin: o})
	}
}

var hostileValues = []string{"", " ", "null", "true", "0", "-1", "1e3", "0x10", "1_000", "abc", "USD", "USD 1", "USD -1", "USD", "USD 1 2", " 1", "usd 1", "USD 1.5", "1/0", "0/0", "3/2", "200%", "50%", "1/3", "a:b", "a::b", "-a", "@a", "world", "é", "\x00", "99999999999999999999999999999999999999", "[USD 1]"}

// values that are nasty for one declared type in particular (decoders differ per type)
var hostileByPrefix = map[string][]string{
	"n":   {"null", "", " ", "-", "+", "-0", "1e3", "1.0", "0x10", "1_0", "٣", "NaN", "Infinity", "true", "[]", "{}", "\"1\"", "99999999999999999999999999999999999999999999999999", " 7", "7 "},
	"m":   {"null", "USD null", "null 1", "USD", "USD ", " 1", "USD  1", "USD 1 ", "USD\t1", "USD 1e3", "USD -0", "USD +1", "USD 0x1", "USD ٣", "usd 1", "USD/ 1", "USD 1 USD 2", "{}"},
	"p":   {"null", "", "1/0", "0/0", "-1/2", "1/-2", "2/1", "200%", "-1%", "1e2%", "1/2/3", "%", "/", "0.5", "50 %", "٥٠%"},
	"acc": {"null", "", ":", "a:", ":a", "a::b", "a b", "@a", "world:", "a\x00b", "é"},
	"ast": {"null", "", "usd", "USD/", "/2", "USD/1234567", "U SD", "USD/-1", "1USD"},
	"s":   {"null", "\x00", "\"", "\\"},
}

func c12LoosenEnv(t *rapid.T, env *numgen.Env) {
	names := make([]string, 0, len(env.Vars))
	for k := range env.Vars {
		names = append(names, k)
	}
	sortStrings(names)
	for _, k := range names {
		switch rapid.IntRange(0, 7).Draw(t, "envMut") {
		case 0:
			delete(env.Vars, k)
		case 1:
			env.Vars[k] = rapid.SampledFrom(hostileValues).Draw(t, "hv")
		case 2, 3:
			// variable names carry their declared type (acc1, ast2, n3, s4, m5, p6)
			prefix := strings.TrimRight(k, "0123456789")
			if vals, ok := hostileByPrefix[prefix]; ok {
				env.Vars[k] = rapid.SampledFrom(vals).Draw(t, "hvTyped")
			} else {
				env.Vars[k] = rapid.SampledFrom(hostileValues).Draw(t, "hv")
			}
		}
	}
	if rapid.IntRange(0, 3).Draw(t, "extraBinding") == 0 {
		env.Vars[rapid.SampledFrom([]string{"ghost", "extra", "x"}).Draw(t, "ebn")] = rapid.SampledFrom(hostileValues).Draw(t, "ebv")
	}
	for _, acc := range []string{"a", "b", "cfg", "nobody"} {
		if rapid.IntRange(0, 3).Draw(t, "metaMut") == 0 {
			if env.Meta[acc] == nil {
				env.Meta[acc] = map[string]string{}
			}
			env.Meta[acc][rapid.SampledFrom([]string{"k", "src", "k1"}).Draw(t, "mk")] = rapid.SampledFrom(hostileValues).Draw(t, "mv")
		}
	}
}

func sortStrings(s []string) {
	for i := 1; i < len(s); i++ {
		for j := i; j > 0 && s[j] < s[j-1]; j-- {
			s[j], s[j-1] = s[j-1], s[j]
		}
	}
}

const c12Script = "send [USD 7] (\n  source = @world\n  destination = @abatest\n)\nset_tx_meta(\"k\", 3)\n"

// c12Judge runs A, B, A and reports a violation signature or "".
func c12Judge(text string, env *numgen.Env, cc *command.Compiler) (out c12Outcome, sig, msg string, slow bool) {
	var a1, b, a2 c12Outcome
	bEnv := &numgen.Env{Vars: map[string]string{}, Balances: map[string]map[string]*big.Int{}, Meta: map[string]map[string]string{}, ReqMeta: map[string]string{}}
	run := func() {
		a1 = c12Exec(text, env, cc)
		b = c12Exec(c12Script, bEnv, cc)
		a2 = c12Exec(text, env, cc)
	}
	if !c12Timed(20*time.Second, run) {
		if !c12Timed(60*time.Second, func() { a1 = c12Exec(text, env, nil) }) {
			return a1, "C12/hang", "compiling and running the script did not terminate within 60 s", false
		}
		return a1, "", "", true
	}
	if a1.Class == "panic" {
		return a1, "C12/panic/" + a1.Stage + "/" + panicClass(a1.Panic), fmt.Sprintf("panic in stage %s: %s", a1.Stage, a1.Panic), false
	}
	if b.Class != "ok" || b.Postings != "world->abatest USD 7; " {
		return a1, "C12/poisoned-later-execution", fmt.Sprintf("after running the script, an unrelated well-formed script answered %s %s %s", b.Class, b.Postings, b.Panic+b.ErrText), false
	}
	if a1.key() != a2.key() {
		return a1, "C12/not-repeatable", fmt.Sprintf("the same script, variables and store gave\n first: %s %s\n third: %s %s", a1.Class, a1.Postings, a2.Class, a2.Postings+a2.Panic), false
	}
	return a1, "", "", false
}

func TestC12(t *testing.T) {
	c := evid.New("C12")
	c.Rule = "generators: (0) revisit: a typed program extended by 2-4 statements that save (all / an amount), credit and debit one and the same account and asset; (1) typed programs loosened at the AST level (any expression in any position, portions that do not add up, unbounded sources anywhere, save/print/fail, one designation -- literal, plain variable, account looked up from metadata -- named several times in one ordered source, extra or duplicated variables with meta/balance origins) with loosened environments (missing / extraneous / malformed bindings and metadata, negative and huge balances); (2) token-level mutation of program text (delete, duplicate, swap, replace by hostile tokens incl. CR, NUL, multi-byte runes, huge numbers, comment markers; truncate); (3) splices of two programs; (4) wide programs naming 120-400 distinct accounts, amounts and keys (around 128 and 256 in particular). Oracle: no panic in compile / SetVarsFromJSON / ResolveResources / ResolveBalances / Run nor in rendering the returned error; termination within a watchdog; A-B-A: the same input gives the same outcome after an unrelated script ran through the shared compilation cache, and the unrelated script is unaffected; a quarter of the inputs are also submitted to a long-lived Commander (model store with the history left by the earlier inputs; a third of these runs carry an idempotency key drawn from a pool mixing used and fresh keys, some as previews, and are surrounded by keyed metadata writes and reverts drawing from the same pool, so keys meet log entries of every kind): no panic, and a plain transaction still commits afterwards; 4% of the cases are concurrent histories on the real engine under the simulator's scheduler (all kinds of writes, shared keys and references, previews, one restart): no request may panic. Non-trivial = the text passes the parser and compiler (the VM stages are reached); distinct by script text + environment."
	c.Assumptions = []string{"a watchdog expiry (20 s, re-run alone with 60 s) is a hang only if it repeats; a single expiry is counted as discarded"}
	cfg := numgen.GenCfg{MaxDepth: 2, MaxStmts: 3}
	cc := command.NewCompiler(64)
	// one long-lived engine: every script runs against the ledger state the previous ones left
	_, commander, stop := enginesim.Standalone()
	defer stop()
	ectx := logging.ContextWithLogger(context.Background(), nopLog{})
	engineRuns := 0
	hcfg := enginesim.DefaultConfig()
	hcfg.Crashes = 1
	hcfg.DryRunPct = 10
	runProp(t, c, func(rt *rapid.T) {
		if rapid.IntRange(0, 24).Draw(rt, "engineHistory") == 0 {
			// a concurrent history on the real engine (scheduled by the simulator) in which requests of
			// different kinds may share idempotency keys and references, across restarts: no request may panic
			plan := enginesim.GenPlan(rt, hcfg)
			r := runEngine(t, rt, c, plan)
			if r == nil {
				return
			}
			labels, _ := concurrencyLabels(r)
			c.Case("history:"+enginesim.TraceKey(r), true, append(labels, "mode:engine-history"), sampleOf(r))
			for i, resp := range r.Responses {
				if resp != nil && resp.ErrClass == "PANIC" {
					sig := "C12/engine-panic/" + panicClass(resp.ErrText)
					if !c.IsKnown(sig) {
						rt.Logf("history: %s", mustJSON(enginesim.RenderResult(r)))
						violation(rt, c, sig, "request %d of a generated history panicked inside the engine: %s", i, clip(resp.ErrText))
					}
					return
				}
			}
			return
		}
		cs := numgen.GenTyped(rt, cfg)
		mode := rapid.SampledFrom([]string{"typed", "loose-ast", "loose-ast", "loose-ast", "loose-env", "token-mut", "token-mut", "splice", "deep", "revisit", "typed-binding", "wide"}).Draw(rt, "mode")
		if mode == "wide" && rapid.IntRange(0, 3).Draw(rt, "wideKept") != 0 {
			mode = "typed" // (wide programs are long: one case in 48)
		}
		text := cs.Text
		switch mode {
		case "loose-ast":
			c12Loosen(rt, cs.Prog)
			if rapid.Bool().Draw(rt, "alsoEnv") {
				c12LoosenEnv(rt, cs.Env)
			}
			text = numgen.Render(cs.Prog, cs.Layout)
		case "loose-env":
			c12LoosenEnv(rt, cs.Env)
		case "token-mut":
			text = c12MutateText(rt, text)
		case "splice":
			other := numgen.GenTyped(rt, cfg)
			cut := rapid.IntRange(0, len(text)).Draw(rt, "cut")
			cut2 := rapid.IntRange(0, len(other.Text)).Draw(rt, "cut2")
			text = text[:cut] + other.Text[cut2:]
		case "typed-binding":
			// one declared variable of each type in turn, bound to a value that is nasty for that type's decoder
			ty := rapid.SampledFrom([]string{"number", "monetary", "portion", "account", "asset", "string"}).Draw(rt, "tbType")
			prefix := map[string]string{"number": "n", "monetary": "m", "portion": "p", "account": "acc", "asset": "ast", "string": "s"}[ty]
			val := rapid.SampledFrom(append(append([]string{}, hostileByPrefix[prefix]...), hostileValues...)).Draw(rt, "tbValue")
			use := map[string]string{
				"number":   "set_tx_meta(\"k\", $v)\n",
				"monetary": "send $v (\n source = @world\n destination = @b\n)\n",
				"portion":  "send [USD 10] (\n source = @world\n destination = {\n  $v to @b\n  remaining to @c\n }\n)\n",
				"account":  "send [USD 1] (\n source = @world\n destination = $v\n)\n",
				"asset":    "send [$v 1] (\n source = @world\n destination = @b\n)\n",
				"string":   "set_tx_meta(\"k\", $v)\n",
			}[ty]
			text = "vars {\n " + ty + " $v\n}\nsend [USD 1] (\n source = @world\n destination = @b\n)\n" + use
			cs.Env = &numgen.Env{Vars: map[string]string{"v": val}, Balances: map[string]map[string]*big.Int{}, Meta: map[string]map[string]string{}, ReqMeta: map[string]string{}}
		case "revisit":
			// one account is saved, credited and debited within the same script: every VM structure that
			// tracks a balance is written several times for the same (account, asset)
			acc := rapid.SampledFrom([]string{"a", "b", "users:001"}).Draw(rt, "rvAcc")
			asset := rapid.SampledFrom([]string{"USD", "EUR/2", "COIN"}).Draw(rt, "rvAsset")
			if cs.Env.Balances[acc] == nil {
				cs.Env.Balances[acc] = map[string]*big.Int{}
			}
			cs.Env.Balances[acc][asset] = big.NewInt(int64(rapid.IntRange(0, 50).Draw(rt, "rvBal")))
			mon := func(n int) numgen.Expr {
				return numgen.LitMonetary{Asset: numgen.LitAsset{Name: asset}, Amount: big.NewInt(int64(n))}
			}
			var extra []numgen.Stmt
			for i, n := 0, rapid.IntRange(2, 4).Draw(rt, "rvN"); i < n; i++ {
				switch rapid.IntRange(0, 3).Draw(rt, "rvKind") {
				case 0:
					extra = append(extra, numgen.Save{AllAsset: numgen.LitAsset{Name: asset}, Acc: numgen.LitAccount{Name: acc}})
				case 1:
					extra = append(extra, numgen.Save{Amount: mon(rapid.IntRange(0, 60).Draw(rt, "rvSave")), Acc: numgen.LitAccount{Name: acc}})
				case 2:
					extra = append(extra, numgen.Send{Amount: mon(rapid.IntRange(0, 30).Draw(rt, "rvIn")), Src: numgen.SrcAccount{Acc: numgen.LitAccount{Name: "world"}}, Dest: numgen.DestAccount{Acc: numgen.LitAccount{Name: acc}}})
				default:
					extra = append(extra, numgen.Send{Amount: mon(rapid.IntRange(0, 30).Draw(rt, "rvOut")), Src: numgen.SrcAccount{Acc: numgen.LitAccount{Name: acc}}, Dest: numgen.DestAccount{Acc: numgen.LitAccount{Name: "b"}}})
				}
			}
			if rapid.Bool().Draw(rt, "rvFront") {
				cs.Prog.Stmts = append(extra, cs.Prog.Stmts...)
			} else {
				cs.Prog.Stmts = append(cs.Prog.Stmts, extra...)
			}
			text = numgen.Render(cs.Prog, cs.Layout)
		case "wide":
			// many distinct things named in one program (accounts, amounts, keys): more than a byte can count,
			// around the powers of two where an index may wrap
			n := rapid.SampledFrom([]int{120, 127, 128, 129, 200, 255, 256, 257, 300, 400}).Draw(rt, "wideN")
			var sb strings.Builder
			shape := rapid.IntRange(0, 2).Draw(rt, "wideShape")
			for i := 0; i < n; i++ {
				switch shape {
				case 0:
					fmt.Fprintf(&sb, "send [USD %d] (\n source = @world\n destination = @w%d\n)\n", 1000+i, i)
				case 1:
					fmt.Fprintf(&sb, "send [USD %d] (\n source = @world\n destination = @w\n)\nset_tx_meta(\"k%d\", %d)\n", 1000+i, i, 5000+i)
				default:
					fmt.Fprintf(&sb, "send [USD 1] (\n source = @world\n destination = @w%d\n)\nset_account_meta(@w%d, \"k\", \"v%d\")\n", i, i, i)
				}
			}
			text = sb.String()
		case "deep":
			depth := rapid.IntRange(10, 60).Draw(rt, "depth")
			src := "@a"
			for i := 0; i < depth; i++ {
				src = "{\n" + src + "\n@b" + fmt.Sprint(i) + "\n}"
			}
			dst := "@x"
			for i := 0; i < depth; i++ {
				dst = "{\nmax [USD 1] to " + dst + "\nremaining kept\n}"
			}
			text = "send [USD 100] (\n source = " + src + "\n destination = " + dst + "\n)"
		}
		out, sig, msg, slow := c12Judge(text, cs.Env, cc)
		if slow {
			c.Discard("watchdog-once")
			return
		}
		if sig == "" && out.Parsed && (mode == "typed" || mode == "loose-ast") {
			// "leaves nothing behind": the same text with other bindings, served by the shared cache
			// after this execution, behaves like a fresh compilation of it
			env2 := numgen.Rebind(rt, cs)
			viaCache, fresh := c12Exec(text, env2, cc), c12Exec(text, env2, nil)
			if viaCache.Class != "panic" && fresh.Class != "panic" && viaCache.key() != fresh.key() {
				sig, msg = "C12/left-behind-for-other-bindings", fmt.Sprintf("after one execution, the same script with other bindings (%s) gives %s %s through the shared compilation cache but %s %s when compiled afresh", numgen.EnvString(env2), viaCache.Class, viaCache.Postings, fresh.Class, fresh.Postings)
			}
		}
		if sig == "" && out.Parsed && len(cs.Env.Vars) > 0 && (mode == "typed" || mode == "loose-env" || mode == "revisit") {
			// "leaves nothing behind": a caller that submits the same request object again (a retry in the same
			// process) gets the same outcome -- the variable map it handed over is still its own
			mine := map[string]string{}
			for k, v := range cs.Env.Vars {
				mine[k] = v
			}
			first, again := runImplVars(text, cs.Env, nil, mine), runImplVars(text, cs.Env, nil, mine)
			if first.Class != "panic" && again.Class != "panic" && first.Class != again.Class {
				sig, msg = "C12/request-consumed", fmt.Sprintf("the same request object submitted twice gives %s, then %s (%v): the first execution changed the variable map it was given (%d of %d bindings left)", first.Class, again.Class, firstLine(fmt.Sprint(again.Err)), len(mine), len(cs.Env.Vars))
			}
		}
		if sig == "" && rapid.IntRange(0, 3).Draw(rt, "throughEngine") == 0 {
			// the same input through Commander.CreateTransaction on a ledger with history
			engineRuns++
			vars := map[string]string{}
			for k, v := range cs.Env.Vars {
				vars[k] = v
			}
			var eerr error
			// the ledger state includes the idempotency keys of earlier writes of every kind: a third of the
			// engine runs carry a key from a pool that mixes used and fresh ones, and are surrounded by
			// keyed metadata writes and reverts drawing from the same pool
			params := command.Parameters{}
			keyPool := 4 + engineRuns/6
			drawKey := func(label string) string {
				return fmt.Sprintf("k%d", rapid.IntRange(0, keyPool).Draw(rt, label))
			}
			if rapid.IntRange(0, 2).Draw(rt, "engineKeyed") == 0 {
				params.IdempotencyKey = drawKey("engineKey")
				params.DryRun = rapid.IntRange(0, 5).Draw(rt, "enginePreview") == 0
			}
			// "never hangs" holds for the engine too: every call carries a deadline far beyond what any of them needs
			base := ectx
			ectx, cancelDeadline := context.WithTimeout(base, 15*time.Second)
			defer cancelDeadline()
			hung := ""
			noteHang := func(what string, err error) {
				if err != nil && hung == "" && (errors.Is(err, context.DeadlineExceeded) || strings.Contains(err.Error(), "deadline exceeded")) {
					hung = fmt.Sprintf("%s did not finish within 15 s: %v", what, err)
				}
			}
			otherWrite := func(label string) any {
				kind := rapid.SampledFrom([]string{"none", "none", "save_meta_account", "save_meta_tx", "delete_meta_account", "delete_meta_tx", "revert"}).Draw(rt, label)
				if kind == "none" {
					return nil
				}
				p := command.Parameters{IdempotencyKey: drawKey(label + "Key")}
				txid := big.NewInt(int64(rapid.IntRange(0, 3+engineRuns/4).Draw(rt, label+"Tx")))
				return safely(func() {
					var err error
					switch kind {
					case "save_meta_account":
						err = commander.SaveMeta(ectx, p, ledger.MetaTargetTypeAccount, "a", metadata.Metadata{"k": "v"})
					case "save_meta_tx":
						err = commander.SaveMeta(ectx, p, ledger.MetaTargetTypeTransaction, txid, metadata.Metadata{"k": "v"})
					case "delete_meta_account":
						err = commander.DeleteMetadata(ectx, p, ledger.MetaTargetTypeAccount, "a", "k")
					case "delete_meta_tx":
						err = commander.DeleteMetadata(ectx, p, ledger.MetaTargetTypeTransaction, txid, "k")
					case "revert":
						_, err = commander.RevertTransaction(ectx, p, txid, rapid.Bool().Draw(rt, label+"Force"))
					}
					if err != nil {
						_ = err.Error()
						noteHang("a "+kind+" on the long-lived Commander", err)
					}
				})
			}
			pn := otherWrite("engineBefore")
			if pn == nil {
				pn = safely(func() {
					_, eerr = commander.CreateTransaction(ectx, params, ledger.RunScript{Script: ledger.Script{Plain: text, Vars: vars}, Metadata: metadata.Metadata(cs.Env.ReqMeta)})
				})
			}
			if pn == nil && eerr != nil {
				pn = safely(func() { _ = eerr.Error() })
				noteHang("the script submitted to the long-lived Commander", eerr)
			}
			if pn == nil {
				pn = otherWrite("engineAfter")
			}
			if pn == nil && hung != "" {
				sig, msg = "C12/engine-hang", hung
			} else if pn != nil {
				sig, msg = "C12/engine-panic/"+panicClass(fmt.Sprint(pn)), fmt.Sprintf("a write on the long-lived Commander panicked: %v", pn)
			} else {
				var after error
				pn2 := safely(func() {
					_, after = commander.CreateTransaction(ectx, command.Parameters{}, ledger.RunScript{Script: ledger.Script{Plain: c12Script, Vars: map[string]string{}}})
				})
				noteHang("a plain transaction after the script", after)
				if hung != "" {
					sig, msg = "C12/engine-hang", hung
				} else if pn2 != nil || after != nil {
					sig, msg = "C12/engine-poisoned", fmt.Sprintf("after the script, a plain transaction on the same ledger fails: %v %v", pn2, after)
				}
			}
		}
		labels := []string{"mode:" + mode, "class:" + out.Class}
		if out.Parsed {
			labels = append(labels, "reached-vm")
		}
		c.Case(text+"#"+numgen.EnvString(cs.Env), out.Parsed, labels, func() any {
			return map[string]any{"script": text, "env": numgen.EnvString(cs.Env), "outcome": out.Class, "error": firstLine(out.ErrText)}
		})
		if sig != "" && !c.IsKnown(sig) {
			rt.Logf("script (%q):\n%s\nenv: %s", text, text, numgen.EnvString(cs.Env))
			violation(rt, c, sig, "%s", msg)
		}
	})
	// a generator that never reaches the VM would make the check vacuous
	if c.Evaluations() > 500 && c.Nontrivial()*100 < c.Evaluations()*30 {
		t.Fatalf("HARNESS-ERROR only %d of %d generated inputs passed the compiler", c.Nontrivial(), c.Evaluations())
	}
}

// fuzzEnv derives a store deterministically from a seed.
func fuzzEnv(seed uint64, varsJSON []byte) *numgen.Env {
	env := &numgen.Env{Vars: map[string]string{}, Balances: map[string]map[string]*big.Int{}, Meta: map[string]map[string]string{}, ReqMeta: map[string]string{}}
	var raw map[string]any
	if json.Unmarshal(varsJSON, &raw) == nil {
		for k, v := range raw {
			switch x := v.(type) {
			case string:
				env.Vars[k] = x
			default:
				env.Vars[k] = fmt.Sprint(x)
			}
		}
	}
	next := func() uint64 {
		seed = seed*6364136223846793005 + 1442695040888963407
		return seed >> 33
	}
	for _, acc := range []string{"a", "b", "c", "users:001", "alice", "bob"} {
		for _, as := range []string{"USD", "EUR/2", "COIN", "GEM"} {
			switch next() % 5 {
			case 0:
			case 1:
				env.Balances[acc] = merge(env.Balances[acc], as, big.NewInt(-int64(next()%100)))
			case 2:
				env.Balances[acc] = merge(env.Balances[acc], as, new(big.Int).Lsh(big.NewInt(1), 70))
			default:
				env.Balances[acc] = merge(env.Balances[acc], as, big.NewInt(int64(next()%500)))
			}
		}
		if next()%3 == 0 {
			env.Meta[acc] = map[string]string{"k": hostileValues[int(next())%len(hostileValues)], "src": "b"}
		}
	}
	return env
}

func merge(m map[string]*big.Int, k string, v *big.Int) map[string]*big.Int {
	if m == nil {
		m = map[string]*big.Int{}
	}
	m[k] = v
	return m
}

func FuzzC12(f *testing.F) {
	seeds := []string{
		c12Script,
		"vars {\n account $a\n monetary $m = balance($a, USD)\n portion $p\n}\nsend $m (\n source = {\n  $p from $a\n  remaining from @world\n }\n destination = {\n  max [USD 10] to @x\n  remaining kept\n }\n)\nsave [USD *] from $a\n",
		"send [USD *] (\n source = {\n max [USD 5] from @a allowing overdraft up to [USD 3]\n @b\n }\n destination = {\n 1/3 to @x\n 2/3 kept\n }\n)\nset_account_meta(@x, \"k\", 12.5%)\nprint 1 + 2 - 3\nfail\n",
		"senda0000000a\r\n0",
	}
	for _, s := range seeds {
		f.Add(s, []byte(`{"a":"a","p":"1/3"}`), uint64(1))
	}
	for _, tok := range hostileTokens {
		f.Add(seeds[1]+tok, []byte(`{"a":"`+tok+`"}`), uint64(7))
	}
	known := evid.New("C12")
	cc := command.NewCompiler(8)
	f.Fuzz(func(t *testing.T, script string, vars []byte, seed uint64) {
		if len(script) > 1000 || len(vars) > 1000 {
			return
		}
		env := fuzzEnv(seed, vars)
		_, sig, msg, _ := c12Judge(script, env, cc)
		if sig != "" && !known.HasKnown(sig) {
			t.Fatalf("VERIF-VIOLATION property=C12 signature=%s\n%s\nscript=%q vars=%q seed=%d", sig, msg, script, vars, seed)
		}
	})
}
