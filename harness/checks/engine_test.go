package checks

// Checks that drive the real command.Commander through ENGINE-SIM
// (harness/enginesim): C02 C05 C07 C10 C11 C16 share the history generator and
// differ in generator emphasis and oracle. C06 and C14 are in their own files.

import (
	"fmt"
	"os"
	"strings"
	"testing"

	ledger "github.com/formancehq/ledger/internal"
	"github.com/formancehq/ledger/verifharness/enginesim"
	"github.com/formancehq/ledger/verifharness/evid"
	"pgregory.net/rapid"
)

func TestMain(m *testing.M) {
	// The job runner prints a stack trace through os.Stderr whenever the
	// harness injects a store failure; that is expected noise.
	if os.Getenv("VERIF_KEEP_STDERR") == "" {
		if f, err := os.OpenFile(os.DevNull, os.O_WRONLY, 0); err == nil {
			os.Stderr = f
		}
	}
	os.Exit(m.Run())
}

const engineAssumption = "the PostgreSQL store is replaced by a model store whose reads see exactly the persisted batches (a batch commits atomically); schedules are explored at the granularity of store calls, monitor calls and verifhook yield points"

type engineCase struct {
	res *enginesim.Result
}

func sampleOf(r *enginesim.Result) func() any {
	return func() any { return enginesim.RenderResult(r) }
}

// runEngine executes the plan and handles harness-level outcomes.
// It returns nil when the case must not be judged.
func runEngine(t *testing.T, rt *rapid.T, c *evid.Collector, plan *enginesim.Plan) *enginesim.Result {
	res := enginesim.Run(t, plan)
	if res.HarnessErr != "" {
		harnessError(rt, "%s", res.HarnessErr)
	}
	if res.BudgetHit {
		c.Discard("step-budget")
		return nil
	}
	return res
}

func concurrencyLabels(r *enginesim.Result) (labels []string, overlapping int) {
	n := len(r.Plan.Ops)
	for i := 0; i < n; i++ {
		for j := i + 1; j < n; j++ {
			if enginesim.Overlaps(r, i, j) {
				overlapping++
			}
		}
	}
	switch {
	case overlapping == 0:
		labels = append(labels, "overlap:none")
	case overlapping < 3:
		labels = append(labels, "overlap:1-2")
	default:
		labels = append(labels, "overlap:3+")
	}
	if len(r.CrashSteps) > 0 {
		labels = append(labels, "crash")
	}
	if r.Faults > 0 {
		labels = append(labels, "store-fault")
	}
	if r.Closes > 0 {
		labels = append(labels, "graceful-close")
	}
	if r.ReadFaults > 0 {
		labels = append(labels, "read-fault")
	}
	if r.Cancels > 0 {
		labels = append(labels, "caller-gone")
	}
	for _, e := range enginesim.ErrClasses(r) {
		labels = append(labels, "err:"+e)
	}
	labels = append(labels, fmt.Sprintf("entries:%d", min(len(r.Store.Entries)/3*3, 12)))
	return labels, overlapping
}

func reportVerdict(rt *rapid.T, c *evid.Collector, v *enginesim.Verdict, r *enginesim.Result) {
	if v == nil {
		return
	}
	if c.IsKnown(v.Sig) {
		return
	}
	rt.Logf("history: %s", mustJSON(enginesim.RenderResult(r)))
	violation(rt, c, v.Sig, "%s", v.Msg)
}

// ---------------------------------------------------------------------------

func TestC02(t *testing.T) {
	c := evid.New("C02")
	c.Rule = "histories = funding prefix + 1-3 rounds of 1-4 concurrent creates/reverts (source named by literal, variable, metadata lookup, ordered list, with/without overdraft, posting mode, balance()) x a generated scheduling choice list over every gate (lock, balance read, tx-id, chaining, hand-off, InsertLogs latency, ack). A fifth of the rounds are 3-5 creates sharing one script text whose two payers and payee are variables (@world among the first payers; some sequential, some racing); up to two requests per history are held back at a drawn point while everything else moves. Oracle: independent fold of the persisted log, per-debit floor. Non-trivial = at least two create/revert requests in flight at the same time, or an insufficient-funds rejection; distinct by operations + gate trace."
	c.Assumptions = []string{engineAssumption}
	cfg := enginesim.DefaultConfig()
	cfg.Kinds = []enginesim.OpKind{enginesim.OpCreate, enginesim.OpCreate, enginesim.OpCreate, enginesim.OpCreate, enginesim.OpRevert, enginesim.OpSaveMeta}
	cfg.MaxPerRound = 4
	cfg.IKPool = nil
	cfg.RefPool = nil
	cfg.Crashes = 1 // a restart in the middle changes nothing about what the log may contain
	cfg.ReadFaults = 1
	cfg.Cancels = 3 // callers that go away while their request holds locks
	cfg.Holds = 2
	cfg.HandoffCancels = 1
	cfg.VarSourcesPct = 20 // one cached program, many bindings of its payers (@world among them)
	runProp(t, c, func(rt *rapid.T) {
		plan := enginesim.GenPlan(rt, cfg)
		r := runEngine(t, rt, c, plan)
		if r == nil {
			return
		}
		labels, _ := concurrencyLabels(r)
		ov := 0
		for i := range plan.Ops {
			for j := i + 1; j < len(plan.Ops); j++ {
				money := func(k enginesim.OpKind) bool { return k == enginesim.OpCreate || k == enginesim.OpRevert }
				if money(plan.Ops[i].Kind) && money(plan.Ops[j].Kind) && enginesim.Overlaps(r, i, j) {
					ov++
				}
			}
		}
		insufficient := false
		for _, e := range enginesim.ErrClasses(r) {
			if e == "INSUFFICIENT_FUND" {
				insufficient = true
			}
		}
		for _, op := range plan.Ops {
			if op.Kind == enginesim.OpCreate && len(op.Script) > 0 {
				switch {
				case contains(op.Script, "meta(@cfg"):
					labels = append(labels, "naming:meta")
				case contains(op.Script, "account $s"):
					labels = append(labels, "naming:variable")
				}
			}
		}
		c.Case(enginesim.TraceKey(r), ov > 0 || insufficient, labels, sampleOf(r))
		reportVerdict(rt, c, enginesim.CheckNoOverdraft(r), r)
	})
}

func TestC05(t *testing.T) {
	c := evid.New("C05")
	c.Rule = "histories of all write kinds, 1-3 rounds of 1-3 concurrent requests, generated choice lists (id allocation / chaining / hand-off / InsertLogs gates), batch sizes {production,1,2,3}, up to 2 crash+restart points and a failing InsertLogs (the runner dies, the process restarts), dry runs and keyed replays in between. One case in 16 runs two ledgers of one bucket through the real SQL store for InsertLogs and the chain head (GetLastLog), with restarts: each ledger's log is a chain of its own. Oracle: ids 0..n-1 in insertion order, hash recomputed from stored content and from the read-back form, hash depends on previous hash, transaction ids 0,1,2.. in log order. Non-trivial = >=2 overlapping writers or a crash followed by a later write; distinct by operations + gate trace."
	c.Assumptions = []string{engineAssumption}
	cfg := enginesim.DefaultConfig()
	cfg.Crashes = 2
	cfg.Faults = 1
	cfg.Cancels = 1
	cfg.Holds = 1
	cfg.TickingClockPct = 50 // requests that start later read a later time: dates in the log need not follow its order
	cfg.SmallBatches = true
	cfg.RefBurstPct = 20 // several writes in flight together: batches fill up and split
	cfg.RefPool = nil    // (without a shared reference, so that all of them commit)
	cfg.DryRunPct = 10
	cfg.MetaFirstPct = 25
	runProp(t, c, func(rt *rapid.T) {
		if rapid.IntRange(0, 15).Draw(rt, "sharedBucket") == 0 {
			// two ledgers of one bucket (they share the table the chain head is read from), restarts in between
			sharedBucket(rt, c, "C05")
			return
		}
		plan := enginesim.GenPlan(rt, cfg)
		r := runEngine(t, rt, c, plan)
		if r == nil {
			return
		}
		labels, ov := concurrencyLabels(r)
		afterCrash := false
		for _, e := range r.Store.Entries {
			if e.Gen > 0 {
				afterCrash = true
			}
		}
		if afterCrash {
			labels = append(labels, "write-after-restart")
		}
		labels = append(labels, fmt.Sprintf("batch:%d", plan.BatchSize))
		c.Case(enginesim.TraceKey(r), ov > 0 || afterCrash, labels, sampleOf(r))
		reportVerdict(rt, c, enginesim.CheckChain(r), r)
	})
}

// identicalKeyGroups makes every request of an idempotency-key group a copy
// of the group's first request (a replay is the same request sent again).
func identicalKeyGroups(plan *enginesim.Plan) {
	first := map[string]int{}
	for i := range plan.Ops {
		k := plan.Ops[i].IK
		if k == "" {
			continue
		}
		if j, ok := first[k]; ok {
			// same request, same key; whether it is sent as a preview stays the sender's choice
			b, dry := plan.Ops[i].Barrier, plan.Ops[i].DryRun
			plan.Ops[i] = plan.Ops[j]
			plan.Ops[i].Barrier, plan.Ops[i].DryRun = b, dry
		} else {
			first[k] = i
		}
	}
}

var c07LongKey = "long-" + strings.Repeat("0123456789abcdef", 20)

func TestC07(t *testing.T) {
	c := evid.New("C07")
	c.Rule = "histories in which 2-4 identical requests of every write kind share an idempotency key (pool of 2 keys): sequential, racing (choice lists over run.ik.taken, store lookup, execution, run.wait) and retried after a crash placed anywhere; side class: same key on different requests; callers that go away at the moment their entry is handed to the batcher; a failing batch insert (the process dies, the retry comes after the restart); one request held back while the others run. One case in 16 is parallel: 10-40 rounds of 2-8 real goroutines released together with the same keyed request against one real Commander. One case in 16 runs two ledgers of one bucket with keys used on both (the key lookup through the real SQL store): a key is a ledger's own. Oracle: <=1 entry per key; every success returns that entry's outcome. Non-trivial = >=2 same-key requests overlapping or straddling a restart; distinct by operations + gate trace."
	c.Assumptions = []string{engineAssumption}
	cfg := enginesim.DefaultConfig()
	cfg.IKPool = []string{"", "k1", "k1", "k2", "k2", c07LongKey, "k\xff"} // one key longer than any column or buffer is likely to be, one that is not valid UTF-8
	cfg.Crashes = 1
	cfg.SameIKIdentical = true
	cfg.SharedNamePct = 15
	cfg.DryRunPct = 15                                 // previews and refused requests come and go while a keyed write is still in flight
	cfg.FailingPct = 10                                // (whatever they reserve and give back must be their own)
	cfg.RefPool = []string{"", "k1", "k1", "k2", "r1"} // references spelled like the keys in use: the two kinds of reservation must not meet
	cfg.ReadFaults = 2
	cfg.Cancels = 1
	cfg.Faults = 1         // a batch insert fails: the process dies, the retry comes after the restart
	cfg.HandoffCancels = 2 // the caller goes away while its entry is in flight, and the same key comes again
	cfg.Holds = 1
	runProp(t, c, func(rt *rapid.T) {
		if rapid.IntRange(0, 15).Draw(rt, "parallelFamily") == 0 {
			parallelClaims(rt, c, "C07", parKey)
			return
		}
		if rapid.IntRange(0, 15).Draw(rt, "sharedBucket") == 0 {
			sharedBucket(rt, c, "C07")
			return
		}
		if rapid.IntRange(0, 19).Draw(rt, "lookupFault") == 0 {
			lookupFault(rt, c, "C07")
			return
		}
		plan := enginesim.GenPlan(rt, cfg)
		identical := rapid.IntRange(0, 4).Draw(rt, "identicalClass") > 0
		if identical {
			identicalKeyGroups(plan)
		}
		r := runEngine(t, rt, c, plan)
		if r == nil {
			return
		}
		labels, _ := concurrencyLabels(r)
		nontrivial := false
		groups := map[string][]int{}
		for i, op := range plan.Ops {
			if op.IK != "" && r.Responses[i] != nil {
				groups[op.IK] = append(groups[op.IK], i)
			}
		}
		for _, g := range groups {
			for x := 0; x < len(g); x++ {
				for y := x + 1; y < len(g); y++ {
					if enginesim.Overlaps(r, g[x], g[y]) {
						nontrivial = true
						labels = append(labels, "samekey:overlap")
					} else if r.SpawnGen[g[x]] != r.SpawnGen[g[y]] {
						nontrivial = true
						labels = append(labels, "samekey:across-restart")
					} else {
						labels = append(labels, "samekey:sequential")
					}
				}
			}
		}
		if identical {
			labels = append(labels, "identical-requests")
		} else {
			labels = append(labels, "mixed-requests")
		}
		c.Case(enginesim.TraceKey(r), nontrivial, labels, sampleOf(r))
		reportVerdict(rt, c, enginesim.CheckIdempotency(r, identical), r)
	})
}

func TestC10(t *testing.T) {
	c := evid.New("C10")
	c.Rule = "one case in twelve goes over HTTP (single revert routes of v1 / v2 and bulk elements; force given as true, false or not at all; the mode applied must be the one each request states); otherwise: histories: funded accounts, committed transactions of generated shapes (multi-posting, posting mode, zero amounts, world on either side), later spends that do or do not move the funds on, then 1-4 reverts per round (forced/unforced, same or different targets, racing; a third of the histories hold a transaction of 13-24 postings which reverts aim at, as a fan-out or as a chain that may be leaky (every hop keeps something); up to two requests held back at a drawn point while the others run to completion), optional crash. One case in 16 is parallel: real goroutines released together on one revert target, at most one may take effect. Oracle: a forced revert is never refused for insufficient funds; revert postings = original reversed and swapped, <=1 revert per target, unforced revert never overdraws (fold with grant 0), balances restored when nothing else touched them, one success per target. Non-trivial = a revert entry of a >=2-posting target, or racing reverts of one target, or a refused revert; distinct by operations + gate trace."
	c.Assumptions = []string{engineAssumption}
	cfg := enginesim.DefaultConfig()
	cfg.Kinds = []enginesim.OpKind{enginesim.OpCreate, enginesim.OpRevert, enginesim.OpRevert, enginesim.OpRevert}
	cfg.MaxPerRound = 4
	cfg.Crashes = 1
	cfg.ReadFaults = 1
	cfg.Cancels = 1
	cfg.HandoffCancels = 2 // the caller of a revert goes away while its entry is in flight, and another revert of the same transaction comes
	cfg.Holds = 2          // a request that is very slow at one point while another runs from start to finish
	cfg.LongPrefixPct = 30 // a transaction of 13-24 postings to revert
	cfg.IKPool = nil
	cfg.UniqueIKPct = 35 // requests carrying a key that was never used before
	cfg.RefPool = nil
	runProp(t, c, func(rt *rapid.T) {
		if rapid.IntRange(0, 11).Draw(rt, "httpFamily") == 0 {
			c10HTTP(rt, c)
			return
		}
		if rapid.IntRange(0, 15).Draw(rt, "parallelFamily") == 0 {
			parallelClaims(rt, c, "C10", parRevert)
			return
		}
		plan := enginesim.GenPlan(rt, cfg)
		r := runEngine(t, rt, c, plan)
		if r == nil {
			return
		}
		labels, _ := concurrencyLabels(r)
		nontrivial := false
		perTarget := map[int64][]int{}
		for i, op := range plan.Ops {
			if op.Kind == enginesim.OpRevert && r.Responses[i] != nil {
				perTarget[r.RevertTargetOf(i)] = append(perTarget[r.RevertTargetOf(i)], i)
				if op.Force {
					labels = append(labels, "forced")
				}
			}
		}
		for _, g := range perTarget {
			for x := 0; x < len(g); x++ {
				for y := x + 1; y < len(g); y++ {
					if enginesim.Overlaps(r, g[x], g[y]) {
						nontrivial = true
						labels = append(labels, "racing-same-target")
					}
				}
			}
		}
		for _, e := range r.Store.Entries {
			if p, ok := e.Log.Data.(interface{ GetType() string }); ok {
				_ = p
			}
		}
		nRev := 0
		for _, e := range r.Store.Entries {
			if e.Log.Type.String() == "REVERTED_TRANSACTION" {
				nRev++
				nontrivial = true
			}
		}
		labels = append(labels, fmt.Sprintf("revert-entries:%d", min(nRev, 3)))
		c.Case(enginesim.TraceKey(r), nontrivial, labels, sampleOf(r))
		reportVerdict(rt, c, enginesim.CheckReverts(r), r)
		reportVerdict(rt, c, enginesim.CheckNoOverdraft(r), r)
	})
}

func TestC11(t *testing.T) {
	c := evid.New("C11")
	c.Rule = "histories in which 2-4 creates share a reference (pool of 2 + none), some of them previews, with reverts of earlier transactions in between (a reverted transaction keeps its reference): racing (choice lists over exec.ref.taken, the store lookup, the competitor's hand-off, InsertLogs commit and ack), competitor succeeding or failing (insufficient funds, compile error, metadata clash, store fault), later sequential attempts, restart in between. One case in 12 is parallel: 10-40 rounds of 2-8 real goroutines released together with creates on one reference against one real Commander (the reservation has no blocking point a scheduler could own). One case in 20 lets a committed reference come again while the database fails the look-up with a generated SQLSTATE (through the real ledgerstore.Store and its classification of driver errors): a look-up that did not finish is not an answer. Oracle: <=1 committed transaction per reference; refusals are CONFLICT when the reference was committed before the attempt started; no spurious CONFLICT. Non-trivial = >=2 same-reference requests overlapping; distinct by operations + gate trace."
	c.Assumptions = []string{engineAssumption}
	cfg := enginesim.DefaultConfig()
	cfg.Kinds = []enginesim.OpKind{enginesim.OpCreate, enginesim.OpCreate, enginesim.OpCreate, enginesim.OpCreate, enginesim.OpSaveMeta, enginesim.OpRevert, enginesim.OpRevert}
	cfg.MaxRounds = 3
	cfg.DryRunPct = 20 // previews carrying a reference race the real writes too
	cfg.RevertByRef = true
	cfg.RefBurstPct = 20
	cfg.RefPool = []string{"", "r1", "r1", "r2", " ", "\t", "r1\x00", "\x00r1"} // a blank reference is a reference like any other; so is one that differs from another by an invisible character
	cfg.MaxPerRound = 4
	cfg.Crashes = 1
	cfg.Faults = 1
	cfg.ReadFaults = 2
	cfg.Cancels = 3 // callers that go away, e.g. while their log is being persisted, and retry
	cfg.HandoffCancels = 1
	cfg.Holds = 2
	cfg.FailingPct = 15
	cfg.IKPool = []string{"", "", "", "k1"}
	runProp(t, c, func(rt *rapid.T) {
		if rapid.IntRange(0, 11).Draw(rt, "parallelFamily") == 0 {
			parallelClaims(rt, c, "C11", parReference)
			return
		}
		if rapid.IntRange(0, 19).Draw(rt, "lookupFault") == 0 {
			lookupFault(rt, c, "C11")
			return
		}
		plan := enginesim.GenPlan(rt, cfg)
		r := runEngine(t, rt, c, plan)
		if r == nil {
			return
		}
		labels, _ := concurrencyLabels(r)
		nontrivial := false
		groups := map[string][]int{}
		for i, op := range plan.Ops {
			if op.Kind == enginesim.OpCreate && op.Reference != "" && r.Responses[i] != nil {
				groups[op.Reference] = append(groups[op.Reference], i)
			}
		}
		for _, g := range groups {
			for x := 0; x < len(g); x++ {
				for y := x + 1; y < len(g); y++ {
					if enginesim.Overlaps(r, g[x], g[y]) {
						nontrivial = true
						labels = append(labels, "sameref:overlap")
					} else {
						labels = append(labels, "sameref:sequential")
					}
				}
			}
		}
		// a create on a reference whose holder had already been reverted when the create started
		for ei, e := range r.Store.Entries {
			if p, ok := e.Log.Data.(ledger.RevertedTransactionLogPayload); ok {
				for _, e2 := range r.Store.Entries[:ei] {
					if tx, ok := e2.Log.Data.(ledger.NewTransactionLogPayload); ok && tx.Transaction.ID.Cmp(p.RevertedTransactionID) == 0 && tx.Transaction.Reference != "" {
						for _, i := range groups[tx.Transaction.Reference] {
							if r.SpawnStep[i] > e.Step {
								labels = append(labels, "sameref:after-revert-of-holder")
							}
						}
					}
				}
			}
		}
		c.Case(enginesim.TraceKey(r), nontrivial, labels, sampleOf(r))
		reportVerdict(rt, c, enginesim.CheckReferences(r), r)
	})
}

func TestC16(t *testing.T) {
	c := evid.New("C16")
	c.Rule = "crash-free histories of all write kinds, real and preview (25%), with idempotency keys incl. replays of a persisted key (in a quarter of the histories a key also comes back on a different request), alone and concurrent, with failing store reads aimed at the k-th read of one request; the Commander publishes through the real bus.ledgerMonitor into a recording publisher (each publication is a scheduling gate). One case in 16 runs two ledgers of one bucket with idempotency keys used on both: every event names its ledger and describes an entry of that ledger's log. Oracle: every published message matches, field by field, an entry persisted at the moment of publication; every entry whose producing request lived to answer -- success or error -- is published at least once (producers and publications are matched to entries one to one, by augmenting paths); previews and failures publish nothing. Non-trivial = history containing a revert entry, a preview, or a keyed replay; distinct by operations + gate trace."
	c.Assumptions = []string{engineAssumption}
	cfg := enginesim.DefaultConfig()
	cfg.DryRunPct = 25
	cfg.FailingPct = 10
	cfg.IKPool = []string{"", "", "k1", "k1", "k2", "k\xff"} // (one key that is not valid UTF-8)
	cfg.SameIKIdentical = true
	cfg.ReadFaults = 1
	cfg.Cancels = 3
	cfg.Closes = 2 // graceful shutdowns with writes in flight
	cfg.HandoffCancels = 1
	cfg.Holds = 1 // one request may be very slow at one point while the others run
	cfg.RefBurstPct = 25
	cfg.RefPool = nil // bursts of writes that all commit: several logs queued behind the one being persisted
	runProp(t, c, func(rt *rapid.T) {
		if rapid.IntRange(0, 15).Draw(rt, "sharedBucket") == 0 {
			sharedBucket(rt, c, "C16")
			return
		}
		plan := enginesim.GenPlan(rt, cfg)
		// the property speaks about replays: the same request sent again with its key; now and then a key comes back
		// on a different request of any kind (a client's mistake): whatever is published then must still describe
		// an entry that exists
		if rapid.IntRange(0, 3).Draw(rt, "identicalKeyGroups") > 0 {
			identicalKeyGroups(plan)
		}
		r := runEngine(t, rt, c, plan)
		if r == nil {
			return
		}
		labels, _ := concurrencyLabels(r)
		nontrivial := false
		seenKey := map[string]bool{}
		for i, op := range plan.Ops {
			if op.IK != "" && r.Responses[i] != nil && r.Responses[i].OK {
				if seenKey[op.IK] {
					nontrivial = true
					labels = append(labels, "keyed-replay:"+string(op.Kind))
				}
				seenKey[op.IK] = true
			}
		}
		for i, op := range plan.Ops {
			if op.DryRun && r.Responses[i] != nil && r.Responses[i].OK {
				nontrivial = true
				labels = append(labels, "preview-ok:"+string(op.Kind))
			}
		}
		for _, e := range r.Store.Entries {
			if e.Log.Type.String() == "REVERTED_TRANSACTION" {
				nontrivial = true
				labels = append(labels, "revert-entry")
			}
		}
		labels = append(labels, fmt.Sprintf("publications:%d", min(len(r.Publications)/2*2, 10)))
		c.Case(enginesim.TraceKey(r), nontrivial, labels, sampleOf(r))
		reportVerdict(rt, c, enginesim.CheckEvents(r), r)
	})
}
