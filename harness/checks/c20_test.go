package checks

// C20 Filter values are data, never SQL: every request with hostile filter
// strings is compared with a benign twin of the same shape; the SQL text that
// reaches the (recording) driver must have the same token skeleton.

import (
	"encoding/json"
	"fmt"
	"net/url"
	"regexp"
	"strings"
	"testing"

	"github.com/formancehq/ledger/internal/api/backend"
	"github.com/formancehq/ledger/internal/storage/ledgerstore"
	"github.com/formancehq/ledger/verifharness/evid"
	"github.com/formancehq/ledger/verifharness/httpsim"
	"github.com/formancehq/ledger/verifharness/sqlrec"
	"pgregory.net/rapid"
)

var hostileFragments = []string{"?", "?0", "?1", "??", "?ledger", "'", "''", `\`, `\'`, `"`, "--", "/*", "*/", ";", "$$", "$x$", ")", "(", "%", "_", "’", "🙂", " or '1'='1", "'; drop table logs; --", `"}') or true --`, "\n", "x", "a", ":", "::", "1", "é", "\\\\", "' || pg_sleep(1) || '", "]", `\"`}

func hostileString(t *rapid.T, label string) string {
	n := rapid.IntRange(1, 5).Draw(t, label+"N")
	var sb strings.Builder
	for i := 0; i < n; i++ {
		sb.WriteString(rapid.SampledFrom(hostileFragments).Draw(t, label))
	}
	if rapid.IntRange(0, 30).Draw(t, label+"Long") == 0 {
		sb.WriteString(strings.Repeat("'a", 200))
	}
	return sb.String()
}

// hostileAddress is an address pattern as a client writes it -- segments separated by colons, empty segments
// standing for "anything" -- in which one or two segments, at any position (before, between or after the empty
// ones), are hostile text.
func hostileAddress(t *rapid.T, label string) string {
	n := rapid.IntRange(1, 5).Draw(t, label+"Segs")
	segs := make([]string, n)
	for i := range segs {
		switch rapid.IntRange(0, 3).Draw(t, label+"SegKind") {
		case 0:
			segs[i] = ""
		case 1:
			segs[i] = rapid.SampledFrom([]string{"users", "x", "001", "a-b_c"}).Draw(t, label+"Plain")
		default:
			segs[i] = rapid.SampledFrom([]string{"x' or '1'='1", "'", "''", "x') or ('1'='1", "'; drop table accounts; --", "x\\", "a'b", "%", "_", "x'||'y", "é'", ")", "?", "--"}).Draw(t, label+"Hostile")
		}
	}
	return strings.Join(segs, ":")
}

// benignAddress keeps the Split(":") pattern of empty / non-empty segments.
func benignAddress(v string) string {
	parts := strings.Split(v, ":")
	for i, p := range parts {
		if p != "" {
			parts[i] = "x"
		}
	}
	return strings.Join(parts, ":")
}

type c20Req struct {
	Method string
	Path   string
	Query  url.Values
	Body   any
}

func (r c20Req) target() string {
	if len(r.Query) == 0 {
		return r.Path
	}
	return r.Path + "?" + r.Query.Encode()
}

func (r c20Req) body() string {
	if r.Body == nil {
		return ""
	}
	b, _ := json.Marshal(r.Body)
	return string(b)
}

// c20Serve sends the request through the real router over a ledgerstore.Store
// whose database is a recording driver; returns status and statements.
func c20Serve(r c20Req) (int, []string) {
	rec := &sqlrec.Recorder{}
	db := sqlrec.NewDB(rec)
	defer db.Close()
	store := ledgerstore.NewStoreForVerif(db, "bucket1", "l1")
	be := httpsim.NewFakeBackend()
	be.Override = func(name string) backend.Ledger {
		return &httpsim.StoreLedger{FakeLedger: &httpsim.FakeLedger{Name: name}, Store: store}
	}
	router := httpsim.NewRouter(be, false)
	resp := httpsim.Serve(router, r.Method, r.target(), map[string]string{"Content-Type": "application/json"}, r.body())
	return resp.Code, rec.Statements()
}

// c20Gen draws a hostile request and its benign twin.
func c20Gen(t *rapid.T) (hostile, twin c20Req, desc string, rawValue string) {
	api := rapid.SampledFrom([]string{"v2", "v2", "v1"}).Draw(t, "api")
	val := hostileString(t, "val")
	rawValue = val
	pit := rapid.IntRange(0, 2).Draw(t, "pit") == 0
	if api == "v2" {
		ep := rapid.SampledFrom([]string{"accounts", "transactions", "aggregate/balances", "logs"}).Draw(t, "endpoint")
		var keys []string
		switch ep {
		case "accounts":
			keys = []string{"address", "metadata[K]", "balance", "balance[K]"}
		case "transactions":
			keys = []string{"account", "source", "destination", "reference", "timestamp", "metadata[K]"}
		case "aggregate/balances":
			keys = []string{"address", "metadata[K]"}
		case "logs":
			keys = []string{"date"}
		}
		key := rapid.SampledFrom(keys).Draw(t, "key")
		if rapid.IntRange(0, 7).Draw(t, "foreignKey") == 0 {
			// a key this listing does not filter on (a column of its table, a key of another listing): refused today;
			// should it ever be taken, its value is client text like any other
			key = rapid.SampledFrom([]string{"id", "seq", "ledger", "hash", "type", "postings", "insertion_date", "data", "idempotency_key", "revision", "date", "timestamp", "reference", "address", "balance"}).Draw(t, "foreignKeyName")
		}
		op := rapid.SampledFrom([]string{"$match", "$match", "$match", "$lt", "$lte", "$gt", "$gte"}).Draw(t, "op")
		hk, bk := key, key
		if strings.Contains(key, "[K]") {
			mk := "k"
			if rapid.Bool().Draw(t, "hostileKey") {
				mk = hostileString(t, "mkey")
			}
			hk = strings.Replace(key, "K", mk, 1)
			bk = strings.Replace(key, "K", "k", 1)
		}
		var hv, bv any = val, "x"
		variant := ""
		switch key {
		case "address", "account", "source", "destination":
			if rapid.Bool().Draw(t, "addressShaped") {
				val = hostileAddress(t, "addr")
				rawValue, hv = val, val
			}
			bv = benignAddress(val)
		}
		if rapid.IntRange(0, 9).Draw(t, "nonString") == 0 {
			alt := rapid.SampledFrom([]any{1, 1.5, true, nil, []any{"a"}, map[string]any{"a": "b"}}).Draw(t, "alt")
			hv, bv = alt, alt
			if rapid.Bool().Draw(t, "hostileInside") {
				// the hostile text sits inside a value that is not a string: a list, a nested list, an object
				switch rapid.IntRange(0, 2).Draw(t, "insideShape") {
				case 0:
					hv, bv = []any{val}, []any{"x"}
				case 1:
					hv, bv = []any{[]any{val}, 1}, []any{[]any{"x"}, 1}
				default:
					hv, bv = map[string]any{"a": val}, map[string]any{"a": "x"}
				}
			}
		}
		if rapid.IntRange(0, 3).Draw(t, "keyVariant") == 0 {
			// the filter key is client text as well: another spelling of an accepted key (letter case, letters that
			// case-fold to ASCII ones, blanks around it, something appended); the twin spells it as documented
			hv = bv
			hk = c20KeyVariant(t, bk)
			variant = " (key spelled differently)"
			rawValue = hk
			val = hk
		}
		mk := func(k string, v any) map[string]any { return map[string]any{op: map[string]any{k: v}} }
		hb, bb := mk(hk, hv), mk(bk, bv)
		if rapid.IntRange(0, 5).Draw(t, "hostileOperator") == 0 {
			// the operator names are client text too: over a list of sub-filters, or over one comparison
			hop := rapid.SampledFrom([]string{"$or true or", "$and 1=1 and", "$or/**/", "$or'", "$or;--", "$and) or (", "$OR", "$or ", "$" + hostileString(t, "opTail")}).Draw(t, "hostileOp")
			plain := map[string]any{"$match": map[string]any{bk: bv}}
			method := "GET"
			q := url.Values{}
			if pit {
				q.Set("pit", "2023-01-01T00:00:00Z")
			}
			path := "/api/ledger/v2/l1/" + ep
			if rapid.Bool().Draw(t, "opOverList") {
				hb = map[string]any{hop: []any{plain, plain}}
				bb = map[string]any{"$or": []any{plain, plain}}
			} else {
				hb = map[string]any{hop: map[string]any{bk: bv}}
				bb = plain
			}
			return c20Req{method, path, q, hb}, c20Req{method, path, q, bb}, fmt.Sprintf("v2 %s %s operator %s", method, ep, "hostile"), hop
		}
		switch rapid.IntRange(0, 4).Draw(t, "nest") {
		case 4:
			// next to a harmless clause on another key of the same list (one whose value travels as a bound
			// parameter, or is rendered): what one clause contains must not disturb how the other is sent
			other := rapid.SampledFrom(keys).Draw(t, "otherKey")
			if strings.Contains(other, "[K]") {
				other = strings.Replace(other, "K", "j", 1)
			}
			var ov any = "x"
			if strings.HasPrefix(other, "balance") {
				ov = 10
			}
			oc := map[string]any{"$match": map[string]any{other: ov}}
			if rapid.Bool().Draw(t, "otherFirst") {
				hb = map[string]any{"$and": []any{oc, hb}}
				bb = map[string]any{"$and": []any{oc, bb}}
			} else {
				hb = map[string]any{"$and": []any{hb, oc}}
				bb = map[string]any{"$and": []any{bb, oc}}
			}
		case 0:
			hb = map[string]any{"$and": []any{hb, mk(hk, hv)}}
			bb = map[string]any{"$and": []any{bb, mk(bk, bv)}}
		case 1:
			hb = map[string]any{"$or": []any{map[string]any{"$and": []any{hb}}, hb}}
			bb = map[string]any{"$or": []any{map[string]any{"$and": []any{bb}}, bb}}
		}
		method := "GET"
		if (ep == "accounts" || ep == "transactions") && rapid.Bool().Draw(t, "head") {
			method = "HEAD"
		}
		q := url.Values{}
		if pit {
			q.Set("pit", "2023-01-01T00:00:00Z")
		}
		if rapid.Bool().Draw(t, "expand") {
			q.Add("expand", "volumes")
		}
		path := "/api/ledger/v2/l1/" + ep
		return c20Req{method, path, q, hb}, c20Req{method, path, q, bb}, fmt.Sprintf("v2 %s %s %s %s%s", method, ep, key, op, variant), rawValue
	}
	// v1: query parameters
	ep := rapid.SampledFrom([]string{"accounts", "transactions", "balances", "aggregate/balances", "logs"}).Draw(t, "endpoint")
	var params []string
	switch ep {
	case "accounts", "balances":
		params = []string{"address", "metadata[K]", "balance", "balanceOperator"}
	case "transactions":
		params = []string{"account", "source", "destination", "reference", "metadata[K]", "start_time", "end_time", "after"}
	case "aggregate/balances":
		params = []string{"address"}
	case "logs":
		params = []string{"start_time", "end_time", "after"}
	}
	p := rapid.SampledFrom(params).Draw(t, "param")
	hq, bq := url.Values{}, url.Values{}
	hp, bp := p, p
	if strings.Contains(p, "[K]") {
		mk := "k"
		if rapid.Bool().Draw(t, "hostileKey") {
			mk = hostileString(t, "mkey")
		}
		hp, bp = strings.Replace(p, "K", mk, 1), strings.Replace(p, "K", "k", 1)
	}
	bv := "x"
	switch p {
	case "address", "account", "source", "destination":
		if rapid.Bool().Draw(t, "addressShaped") {
			val = hostileAddress(t, "addr")
			rawValue = val
		}
		bv = benignAddress(val)
	}
	hq.Set(hp, val)
	bq.Set(bp, bv)
	if p == "balanceOperator" {
		hq.Set("balance", "10")
		bq.Set("balance", "10")
	}
	if pit {
		hq.Set("pit", "2023-01-01T00:00:00Z")
		bq.Set("pit", "2023-01-01T00:00:00Z")
	}
	method := "GET"
	if (ep == "accounts" || ep == "transactions") && rapid.Bool().Draw(t, "head") {
		method = "HEAD"
	}
	path := "/api/ledger/l1/" + ep
	return c20Req{method, path, hq, nil}, c20Req{method, path, bq, nil}, fmt.Sprintf("v1 %s %s %s", method, ep, p), rawValue
}

// c20KeyVariant spells an accepted filter key differently.
func c20KeyVariant(t *rapid.T, key string) string {
	switch rapid.IntRange(0, 8).Draw(t, "keyVariantKind") {
	case 0:
		return strings.ToUpper(key)
	case 1:
		return strings.ToUpper(key[:1]) + key[1:]
	case 2, 7, 8:
		// letters outside ASCII that Unicode case folding equates with ASCII ones (long s, Kelvin sign)
		r := strings.NewReplacer("s", "\u017f", "k", "\u212a", "S", "\u017f", "K", "\u212a")
		return r.Replace(key)
	case 3:
		pos := rapid.IntRange(0, len(key)-1).Draw(t, "flipAt")
		c := key[pos : pos+1]
		if c == strings.ToLower(c) {
			c = strings.ToUpper(c)
		} else {
			c = strings.ToLower(c)
		}
		return key[:pos] + c + key[pos+1:]
	case 4:
		return rapid.SampledFrom([]string{" ", "\t", "\n"}).Draw(t, "blank") + key
	case 5:
		return key + rapid.SampledFrom([]string{" ", " --", ";", ")", " or true", "/**/", "'", "\"", "::text", " desc"}).Draw(t, "keyTail")
	default:
		return key + hostileString(t, "keyTailAny")
	}
}

func TestC20(t *testing.T) {
	c := evid.New("C20")
	c.Rule = "requests to every listing of both API versions (v2 JSON bodies with $match/$lt/$lte/$gt/$gte, nested $and/$or, GET and HEAD; v1 query parameters address, account, source, destination, reference, metadata[k], balance, balanceOperator, start_time, end_time, after), with and without pit/expand, carrying values, metadata keys, (one case in six) operator names and (one v2 case in four) other spellings of the accepted filter keys (letter case, letters that case-fold to ASCII ones, blanks, appended text) assembled from hostile fragments (quotes, doubled quotes, backslashes, comment markers, semicolons, dollar quotes, parentheses, non-ASCII, newlines, 10 kB runs) or JSON non-strings; each is paired with a benign twin of the same shape. The real routers run over ledgerstore.Store over a recording driver. Oracle: the request sent twice is treated the same way both times; hostile request rejected, or every statement lexes as PostgreSQL and has the twin's token skeleton (string constants and numbers abstracted). Non-trivial = the hostile request reached the driver and its value contains one of ' \\ \" -- /* ; distinct by (endpoint, key, operator, value)."
	c.Assumptions = []string{"the PostgreSQL lexer of harness/sqlrec (standard_conforming_strings=on) is the judge of SQL structure", "the content of a jsonpath / JSON document inside a string constant is not inspected"}
	runProp(t, c, func(rt *rapid.T) {
		hostile, twin, desc, val := c20Gen(rt)
		hs, hstm := c20Serve(hostile)
		// the same request again: whatever a first look at a value leaves behind in the process (a cache, a
		// memo) must not change how the value is treated the second time
		hs2, hstm2 := c20Serve(hostile)
		if hs2 != hs || strings.Join(hstm2, "\n") != strings.Join(c20SameInstants(hstm, hstm2), "\n") {
			if !c.IsKnown("C20/second-time-differs") {
				rt.Logf("first:  %d\n%s\nsecond: %d\n%s", hs, clip(strings.Join(hstm, "\n")), hs2, clip(strings.Join(hstm2, "\n")))
				violation(rt, c, "C20/second-time-differs", "%s: the same request was answered %d with %d statement(s) the first time and %d with %d statement(s) the second time", desc, hs, len(hstm), hs2, len(hstm2))
			}
			return
		}
		ts, tstm := c20Serve(twin)
		special := strings.ContainsAny(val, `'\";`) || strings.Contains(val, "--") || strings.Contains(val, "/*")
		labels := []string{desc, fmt.Sprintf("hostile-status:%d", hs/100*100), fmt.Sprintf("twin-status:%d", ts/100*100)}
		if len(hstm) > 0 {
			labels = append(labels, "reached-driver")
		}
		c.Case(evid.Key(desc, hostile.target(), hostile.body()), len(hstm) > 0 && special, labels, func() any {
			return map[string]any{"request": desc, "target": hostile.target(), "body": hostile.body(), "status": hs, "statements": hstm, "twinStatements": tstm}
		})
		fail := func(sig, format string, args ...any) {
			if c.IsKnown(sig) {
				return
			}
			rt.Logf("hostile: %s %s body=%s -> %d\n%s\ntwin: %s body=%s -> %d\n%s", hostile.Method, clip(hostile.target()), clip(hostile.body()), hs, clip(strings.Join(hstm, "\n")), clip(twin.target()), clip(twin.body()), ts, clip(strings.Join(tstm, "\n")))
			violation(rt, c, sig, "%s", clip(fmt.Sprintf(format, args...)))
		}
		kind := strings.Fields(desc)[3]
		var tsk []string
		for _, s := range tstm {
			sk, err := sqlrec.Skeleton(s)
			if err != nil {
				harnessError(rt, "the benign twin's SQL does not lex: %v\n%s", err, s)
			}
			tsk = append(tsk, sk)
		}
		rejected := hs >= 400
		for i, s := range hstm {
			sk, err := sqlrec.Skeleton(s)
			if err != nil {
				fail("C20/unbalanced/"+kind, "statement %d sent for the hostile request is not well-formed SQL (%v): the client's text escaped its literal\n%s", i, err, s)
				return
			}
			if rejected {
				found := false
				for _, w := range tsk {
					if w == sk {
						found = true
					}
				}
				if !found && len(tsk) > 0 {
					fail("C20/structure/"+kind, "the rejected hostile request still sent a statement whose structure differs from every statement of the benign twin:\n  %s", s)
					return
				}
				continue
			}
			if i >= len(tsk) || tsk[i] != sk {
				want := "<none>"
				if i < len(tstm) {
					want = tstm[i]
				}
				fail("C20/structure/"+kind, "statement %d has a different structure than for a harmless value of the same shape:\n  hostile: %s\n  benign:  %s", i, s, want)
				return
			}
		}
		if !rejected && len(hstm) != len(tstm) && ts < 400 {
			fail("C20/statement-count/"+kind, "the hostile request sent %d statement(s), its benign twin %d", len(hstm), len(tstm))
		}
	})
}

var c20InstantRe = regexp.MustCompile(`'\d{4}-\d{2}-\d{2}T\d{2}:\d{2}:\d{2}(\.\d+)?Z'`)

// c20SameInstants rewrites the timestamps of a (the implicit "now" of a request) to those of b when the two
// statement lists differ in nothing else, so that two runs of one request can be compared textually.
func c20SameInstants(a, b []string) []string {
	if len(a) != len(b) {
		return a
	}
	out := make([]string, len(a))
	for i := range a {
		ia, ib := c20InstantRe.FindAllString(a[i], -1), c20InstantRe.FindAllString(b[i], -1)
		out[i] = a[i]
		if len(ia) == len(ib) && c20InstantRe.ReplaceAllString(a[i], "T") == c20InstantRe.ReplaceAllString(b[i], "T") {
			out[i] = b[i]
		}
	}
	return out
}

func clip(s string) string {
	if len(s) > 1500 {
		return s[:1500] + "...[clipped]"
	}
	return s
}
