package checks

// C14 A dry run changes nothing. Metamorphic: H1 (with previews) against H0
// (previews removed) and, per preview k, against H2_k (preview k made real).

import (
	"encoding/json"
	"fmt"
	"testing"

	"github.com/formancehq/ledger/internal/api/backend"
	"github.com/formancehq/ledger/verifharness/enginesim"
	"github.com/formancehq/ledger/verifharness/evid"
	"github.com/formancehq/ledger/verifharness/httpsim"
	"pgregory.net/rapid"
)

func c14Without(plan *enginesim.Plan) (*enginesim.Plan, []int) {
	out := *plan
	out.Ops = nil
	out.RestartBefore = nil
	out.ReadFaultOf = nil             // (they are aimed at previews only)
	idx := make([]int, len(plan.Ops)) // old index -> new index (-1 removed)
	for i, op := range plan.Ops {
		if op.DryRun {
			idx[i] = -1
			continue
		}
		idx[i] = len(out.Ops)
		op.Barrier = len(out.Ops)
		out.Ops = append(out.Ops, op)
	}
	for _, rb := range plan.RestartBefore {
		// restart in front of the next real op at or after rb
		for j := rb; j < len(plan.Ops); j++ {
			if idx[j] >= 0 {
				out.RestartBefore = append(out.RestartBefore, idx[j])
				break
			}
		}
	}
	return &out, idx
}

func respJSON(r *enginesim.Response) string {
	if r == nil {
		return "null"
	}
	tx := "null"
	if r.Tx != nil {
		b, _ := json.Marshal(r.Tx)
		tx = string(b)
	}
	return fmt.Sprintf("answered=%v ok=%v class=%s tx=%s", r.Answered, r.OK, r.ErrClass, tx)
}

func logsJSON(r *enginesim.Result) []string {
	out := make([]string, len(r.Store.Entries))
	for i, e := range r.Store.Entries {
		b, _ := json.Marshal(e.Log)
		out[i] = string(b)
	}
	return out
}

func pubsJSON(r *enginesim.Result) []string {
	var out []string
	for _, p := range r.Publications {
		if !p.Lost {
			out = append(out, p.Topic+" "+string(p.Payload))
		}
	}
	return out
}

func firstDiff(a, b []string) string {
	for i := 0; i < len(a) || i < len(b); i++ {
		var x, y string
		if i < len(a) {
			x = a[i]
		} else {
			x = "<missing>"
		}
		if i < len(b) {
			y = b[i]
		} else {
			y = "<missing>"
		}
		if x != y {
			return fmt.Sprintf("position %d:\n  without preview: %s\n  with preview:    %s", i, x, y)
		}
	}
	return ""
}

func TestC14(t *testing.T) {
	c := evid.New("C14")
	c.Rule = "sequential histories of 3-10 real writes of all kinds with previews (dry run) of all kinds inserted at generated positions (succeeding and failing, with and without idempotency key), process restarts at generated positions. A third of the histories with previews aim a failing store read at one preview (its real twin in H2_k meets the same failure); a quarter of all histories start with one account overdrawn. Each case runs H1 (as generated), H0 (previews removed) and H2_k (preview k made real). Oracle: persisted log, responses of real writes and publications of H1 equal those of H0 byte for byte; the preview's answer in H1 equals its real twin's answer in H2_k. A second family (50%) lets previews race real writes (generated schedules) and checks the no-effect clauses as invariants of the history: transaction ids dense in log order, every entry produced by a real request, nothing published for a preview, and the guarantees of the real writes around it intact (unique references, idempotency keys, no overdraft); a quarter of its rounds are bursts of creates sharing one reference, a third of them previews. A third family (1 in 12) sends one write request of either API version with the preview flag in each spelling the handlers accept (true in any case, 1, yes in any case) through the real routers over a real Commander: no log entry may appear. Non-trivial = a successful preview followed by at least one real transaction (sequential family) or a preview overlapping a real write (concurrent family); distinct by operations (and gate trace)."
	c.Assumptions = []string{engineAssumption, "the bubble's fake clock stands still, so timestamps (and therefore hashes) are equal across the runs; cases where it moved are discarded and counted"}
	cfg := enginesim.DefaultConfig()
	cfg.Sequential = true
	cfg.MaxRounds = 8
	cfg.DryRunPct = 30
	cfg.FailingPct = 10
	cfg.Choices = 1
	cfg.IKPool = []string{"", "", "", "k1", "k2", "k\xff"}
	ccfg := enginesim.DefaultConfig()
	ccfg.DryRunPct = 40
	ccfg.IKPool = []string{"", "", "", "k1"}
	ccfg.SameIKIdentical = true
	ccfg.RefBurstPct = 45
	runProp(t, c, func(rt *rapid.T) {
		if rapid.IntRange(0, 11).Draw(rt, "httpFlagFamily") == 0 {
			c14HTTPFlag(rt, c)
			return
		}
		if rapid.IntRange(0, 1).Draw(rt, "concurrentFamily") == 0 {
			// previews racing real writes: byte equality with a preview-free twin is not defined under
			// concurrency, so the "no effect" clauses are checked as invariants of the history
			plan := enginesim.GenPlan(rt, ccfg)
			identicalKeyGroups(plan)
			r := runEngine(t, rt, c, plan)
			if r == nil {
				return
			}
			nPrev, overl := 0, false
			for i, op := range plan.Ops {
				if op.DryRun && r.Responses[i] != nil {
					nPrev++
					for j := range plan.Ops {
						if j != i && !plan.Ops[j].DryRun && enginesim.Overlaps(r, i, j) {
							overl = true
						}
					}
				}
			}
			c.Case("conc:"+enginesim.TraceKey(r), overl, []string{"family:concurrent", fmt.Sprintf("previews:%d", min(nPrev, 3))}, sampleOf(r))
			// (a) no consumed id, no gap: ids dense in log order; (b) no entry produced by a preview: every entry
			// has a real producer (CheckAck ignores previews as producers); (c) nothing published by a preview; (d) a preview
			// does not weaken what protects the real writes around it: references stay unique, keys take effect once, no overdraft
			for _, v := range []*enginesim.Verdict{enginesim.CheckChain(r), enginesim.CheckAck(r), enginesim.CheckEvents(r), enginesim.CheckReferences(r), enginesim.CheckNoOverdraft(r), enginesim.CheckIdempotency(r, true)} {
				if v == nil {
					continue
				}
				sig := "C14/concurrent/" + v.Sig
				if c.IsKnown(sig) {
					continue
				}
				rt.Logf("history: %s", mustJSON(enginesim.RenderResult(r)))
				violation(rt, c, sig, "with previews racing real writes: %s", v.Msg)
				return
			}
			return
		}
		plan := enginesim.GenPlan(rt, cfg)
		plan.Choices = nil
		for i := range plan.Ops {
			plan.Ops[i].Barrier = i
		}
		nPrev := 0
		for _, op := range plan.Ops {
			if op.DryRun {
				nPrev++
			}
		}
		for i := 0; i < 2; i++ {
			if rapid.IntRange(0, 2).Draw(rt, "restart") == 0 {
				plan.RestartBefore = append(plan.RestartBefore, rapid.IntRange(1, len(plan.Ops)-1).Draw(rt, "restartBefore"))
			}
		}
		// a preview may meet a failing store like any request: one of its reads fails (the real twin of H2 meets the same failure)
		if nPrev > 0 && rapid.IntRange(0, 2).Draw(rt, "previewReadFault") == 0 {
			var previews []int
			for i, op := range plan.Ops {
				if op.DryRun {
					previews = append(previews, i)
				}
			}
			plan.ReadFaultOf = append(plan.ReadFaultOf, [2]int{rapid.SampledFrom(previews).Draw(rt, "faultyPreview"), rapid.IntRange(0, 3).Draw(rt, "faultyRead")})
		}
		h1 := runEngine(t, rt, c, plan)
		if h1 == nil {
			return
		}
		p0, idx := c14Without(plan)
		h0 := runEngine(t, rt, c, p0)
		if h0 == nil {
			return
		}
		if h1.ClockMoved || h0.ClockMoved {
			c.Discard("clock-moved")
			return
		}
		labels := []string{fmt.Sprintf("previews:%d", min(nPrev, 3)), fmt.Sprintf("restarts:%d", len(plan.RestartBefore))}
		if h1.ReadFaults > 0 {
			labels = append(labels, "preview-met-failing-read")
		}
		nontrivial := false
		for i, op := range plan.Ops {
			if op.DryRun && h1.Responses[i] != nil && h1.Responses[i].OK {
				labels = append(labels, "preview-ok:"+string(op.Kind))
				for j := i + 1; j < len(plan.Ops); j++ {
					if !plan.Ops[j].DryRun && plan.Ops[j].Kind != enginesim.OpSaveMeta && plan.Ops[j].Kind != enginesim.OpDeleteMeta && h1.Responses[j] != nil && h1.Responses[j].OK {
						nontrivial = true
					}
				}
			} else if op.DryRun {
				labels = append(labels, "preview-failed:"+string(op.Kind))
			}
		}
		c.Case(enginesim.PlanKey(plan), nontrivial, labels, sampleOf(h1))
		fail := func(sig, format string, args ...any) {
			if c.IsKnown(sig) {
				return
			}
			rt.Logf("H1: %s", mustJSON(enginesim.RenderResult(h1)))
			violation(rt, c, sig, format, args...)
		}
		if d := firstDiff(logsJSON(h0), logsJSON(h1)); d != "" {
			fail("C14/log-differs", "the persisted log differs once previews are inserted, %s", d)
			return
		}
		if d := firstDiff(pubsJSON(h0), pubsJSON(h1)); d != "" {
			fail("C14/events-differ", "published events differ once previews are inserted, %s", d)
			return
		}
		for i, op := range plan.Ops {
			if op.DryRun {
				continue
			}
			if a, b := respJSON(h0.Responses[idx[i]]), respJSON(h1.Responses[i]); a != b {
				fail("C14/later-response-differs", "request #%d (%s) answers differently when previews precede it:\n  without: %s\n  with:    %s", i, op.Kind, a, b)
				return
			}
		}
		// preview answer == real twin's answer
		for k, op := range plan.Ops {
			if !op.DryRun {
				continue
			}
			p2 := *plan
			p2.Ops = append([]enginesim.Op(nil), plan.Ops...)
			p2.Ops[k].DryRun = false
			h2 := runEngine(t, rt, c, &p2)
			if h2 == nil || h2.ClockMoved {
				continue
			}
			if a, b := respJSON(h2.Responses[k]), respJSON(h1.Responses[k]); a != b {
				fail("C14/preview-answer/"+string(op.Kind), "preview #%d (%s) does not answer what the real write answers:\n  real:    %s\n  preview: %s", k, op.Kind, a, b)
				return
			}
		}
	})
}

// c14HTTPFlag: the preview flag as a client spells it. The handlers accept `yes`, `true` (any case) and
// `1`; a request carrying any of those spellings, on any write route of either API version, must leave
// the log as it was.
func c14HTTPFlag(rt *rapid.T, c *evid.Collector) {
	store, commander, stop := enginesim.Standalone()
	defer stop()
	be := httpsim.NewFakeBackend()
	be.Override = func(name string) backend.Ledger {
		return &httpsim.EngineLedger{FakeLedger: &httpsim.FakeLedger{Name: name}, Commander: commander}
	}
	router := httpsim.NewRouter(be, false)
	hdr := map[string]string{"Content-Type": "application/json"}
	txBody := `{"postings":[{"source":"world","destination":"a","asset":"USD","amount":5}],"metadata":{"k":"v"}}`
	// something to revert and to annotate
	if rec := httpsim.Serve(router, "POST", "/api/ledger/v2/l1/transactions", hdr, txBody); rec.Code >= 300 {
		harnessError(rt, "cannot create the initial transaction: %d %s", rec.Code, clip(rec.Body.String()))
	}
	before := len(store.Entries)
	api := rapid.SampledFrom([]string{"v2", "v1"}).Draw(rt, "flagAPI")
	flag, prefix := "dryRun", "/api/ledger/v2/l1"
	if api == "v1" {
		flag, prefix = "preview", "/api/ledger/l1"
	}
	spelling := rapid.SampledFrom([]string{"true", "TRUE", "True", "tRuE", "1", "yes", "YES", "Yes"}).Draw(rt, "flagSpelling")
	type route struct{ method, path, body string }
	routes := []route{
		{"POST", "/transactions", txBody},
		{"POST", "/transactions", `{"script":{"plain":"send [USD 1] (\n source = @world\n destination = @b\n)","vars":{}}}`},
		{"POST", "/transactions/0/revert", ``},
		{"POST", "/transactions/0/metadata", `{"k2":"v2"}`},
		{"POST", "/accounts/a/metadata", `{"k2":"v2"}`},
		{"DELETE", "/accounts/a/metadata/k", ``},
	}
	if api == "v2" {
		routes = append(routes, route{"DELETE", "/transactions/0/metadata/k", ``})
	}
	ro := rapid.SampledFrom(routes).Draw(rt, "flagRoute")
	target := prefix + ro.path + "?" + flag + "=" + spelling
	rec := httpsim.Serve(router, ro.method, target, hdr, ro.body)
	after := len(store.Entries)
	c.Case(evid.Key("http-flag", api, ro.method, ro.path, spelling), true, []string{"family:http-flag", "flag:" + flag + "=" + spelling}, func() any {
		return map[string]any{"family": "http-flag", "request": ro.method + " " + target, "status": rec.Code}
	})
	if after != before {
		if !c.IsKnown("C14/http-flag/entry-written") {
			rt.Logf("%s %s body=%s -> %d %s", ro.method, target, ro.body, rec.Code, clip(rec.Body.String()))
			violation(rt, c, "C14/http-flag/entry-written", "%s %s asked for a preview (%s=%s) and %d log entr(y/ies) were written", ro.method, target, flag, spelling, after-before)
		}
	}
}
