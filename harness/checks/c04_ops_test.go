package checks

// C04 (g): comparison operators in list filters. Two filters that differ only in their comparison operator
// ($lt, $lte, $gt, $gte, $match) denote different sets of rows; one SQL text cannot compute both. The same
// list call is made twice over a recording driver, once per operator: when both are accepted, the statements
// sent must differ, and they must differ in nothing but comparison operators. (What the statement computes is
// PostgreSQL's business and out of reach here; that the operator the client wrote reaches the statement is not.)

import (
	"context"
	"fmt"
	"strings"

	ledger "github.com/formancehq/ledger/internal"
	"github.com/formancehq/ledger/internal/storage/ledgerstore"
	"github.com/formancehq/ledger/verifharness/evid"
	"github.com/formancehq/ledger/verifharness/sqlrec"
	"github.com/formancehq/stack/libs/go-libs/query"
	"pgregory.net/rapid"
)

func c04Operators(rt *rapid.T, c *evid.Collector) {
	ctx := context.Background()
	ops := []string{"$lt", "$lte", "$gt", "$gte", "$match"}
	opA := rapid.SampledFrom(ops).Draw(rt, "opA")
	opB := rapid.SampledFrom(ops).Draw(rt, "opB")
	if opA == opB {
		opB = ops[(indexOf(ops, opA)+1)%len(ops)]
	}
	list := rapid.SampledFrom([]string{"accounts", "accounts-count", "transactions", "transactions-count", "logs"}).Draw(rt, "opList")
	var key string
	var val any
	switch list {
	case "accounts", "accounts-count":
		key = rapid.SampledFrom([]string{"balance", "balance[USD]", "balance[EUR/2]"}).Draw(rt, "opKey")
		val = rapid.SampledFrom([]int{0, 10, 1000000}).Draw(rt, "opVal")
	case "transactions", "transactions-count":
		key = rapid.SampledFrom([]string{"timestamp", "reference"}).Draw(rt, "opKey")
		val = "2023-01-01T00:00:00Z"
	default:
		key, val = "date", "2023-01-01T00:00:00Z"
	}
	pitf := ledgerstore.PITFilterWithVolumes{}
	if rapid.Bool().Draw(rt, "opPIT") {
		ts, _ := ledger.ParseTime("2023-06-01T00:00:00Z")
		pitf.PIT = &ts
	}
	run := func(qb query.Builder) ([]string, error, any) {
		rec := &sqlrec.Recorder{}
		db := sqlrec.NewDB(rec)
		defer db.Close()
		store := ledgerstore.NewStoreForVerif(db, "bucket", "l1")
		var err error
		p := safely(func() {
			switch list {
			case "accounts":
				_, err = store.GetAccountsWithVolumes(ctx, ledgerstore.NewGetAccountsQuery(ledgerstore.NewPaginatedQueryOptions(pitf).WithQueryBuilder(qb).WithPageSize(15)))
			case "accounts-count":
				_, err = store.CountAccounts(ctx, ledgerstore.NewGetAccountsQuery(ledgerstore.NewPaginatedQueryOptions(pitf).WithQueryBuilder(qb).WithPageSize(15)))
			case "transactions":
				_, err = store.GetTransactions(ctx, ledgerstore.NewGetTransactionsQuery(ledgerstore.NewPaginatedQueryOptions(pitf).WithQueryBuilder(qb).WithPageSize(15)))
			case "transactions-count":
				_, err = store.CountTransactions(ctx, ledgerstore.NewGetTransactionsQuery(ledgerstore.NewPaginatedQueryOptions(pitf).WithQueryBuilder(qb).WithPageSize(15)))
			default:
				_, err = store.GetLogs(ctx, ledgerstore.NewGetLogsQuery(ledgerstore.PaginatedQueryOptions[any]{QueryBuilder: qb, PageSize: 15}))
			}
		})
		return rec.Statements(), err, p
	}
	nestInner := rapid.Bool().Draw(rt, "opNestedInner")
	nested := rapid.Bool().Draw(rt, "opNestedOuter")
	mk2 := func(op string) query.Builder {
		var b query.Builder
		switch op {
		case "$lt":
			b = query.Lt(key, val)
		case "$lte":
			b = query.Lte(key, val)
		case "$gt":
			b = query.Gt(key, val)
		case "$gte":
			b = query.Gte(key, val)
		default:
			b = query.Match(key, val)
		}
		if nestInner {
			b = query.And(query.Match("metadata[k]", "v"), b)
		}
		if nested {
			b = query.Or(b, query.Not(query.Match("metadata[j]", "w")))
		}
		return b
	}
	sa, ea, pa := run(mk2(opA))
	sb, eb, pb := run(mk2(opB))
	desc := fmt.Sprintf("%s %s %s vs %s", list, key, opA, opB)
	accepted := ea == nil && eb == nil && pa == nil && pb == nil && len(sa) > 0 && len(sb) > 0
	c.Case("g:"+desc+fmt.Sprint(pitf.PIT != nil, nestInner, nested), accepted, []string{"g:operators", "g:" + list}, func() any {
		return map[string]any{"family": "operators", "call": desc, "statementsA": sa, "statementsB": sb}
	})
	if !accepted {
		return // an operator the key does not take is refused: nothing to compare
	}
	fail := func(sig, format string, args ...any) {
		if c.IsKnown(sig) {
			return
		}
		rt.Logf("%s:\n  %s: %s\n  %s: %s", desc, opA, clip(strings.Join(sa, "\n")), opB, clip(strings.Join(sb, "\n")))
		violation(rt, c, sig, format, args...)
	}
	if strings.Join(sa, "\n") == strings.Join(sb, "\n") {
		fail("C04/operators/ignored/"+strings.SplitN(key, "[", 2)[0], "%s: the filter %s %v and the filter %s %v are sent as the same statement(s): one of them lists rows the filter excludes", list, opA, val, opB, val)
		return
	}
	// ... and they differ in comparison operators only
	if len(sa) != len(sb) {
		fail("C04/operators/shape", "%s: %d statement(s) for %s, %d for %s", list, len(sa), opA, len(sb), opB)
		return
	}
	cmp := map[string]bool{"<": true, "<=": true, ">": true, ">=": true, "=": true}
	for i := range sa {
		ta, errA := sqlrec.Lex(sa[i])
		tb, errB := sqlrec.Lex(sb[i])
		if errA != nil || errB != nil || len(ta) != len(tb) {
			fail("C04/operators/shape", "%s, statement %d: the two operators give statements of different shape", list, i)
			return
		}
		for k := range ta {
			if ta[k].Text != tb[k].Text && !(cmp[ta[k].Text] && cmp[tb[k].Text]) {
				fail("C04/operators/shape", "%s, statement %d: besides the comparison operator the statements differ in %q vs %q", list, i, ta[k].Text, tb[k].Text)
				return
			}
		}
	}
}

func indexOf(xs []string, x string) int {
	for i, y := range xs {
		if y == x {
			return i
		}
	}
	return -1
}
