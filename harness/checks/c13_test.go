package checks

// C13 Every log entry can be read back and re-verified.
//
// Generator: chains of 1..12 log entries built with the code's own
// constructors, every (kind x target) combination, timestamps written as the
// API accepts them and parsed with ledger.ParseTime, amounts up to 10^40,
// nil/empty/unicode/HTML metadata, references, idempotency keys.
// Oracle: JSON round trip (API form), store-row round trip emulating jsonb
// and timestamptz (store form), re-chaining of the round-tripped entry gives
// the stored hash, and metamorphic sensitivity of the hash to every covered
// field.

import (
	"bytes"
	"context"
	"encoding/json"
	"fmt"
	"github.com/formancehq/ledger/internal/api/backend"
	"github.com/formancehq/ledger/verifharness/httpsim"
	"math/big"
	"net/http/httptest"
	"reflect"
	"strings"
	"testing"
	"time"
	"unicode/utf8"

	ledger "github.com/formancehq/ledger/internal"
	"github.com/formancehq/ledger/internal/engine/command"
	"github.com/formancehq/ledger/verifharness/enginesim"
	"github.com/formancehq/ledger/verifharness/evid"
	"github.com/formancehq/ledger/verifharness/gen"
	"github.com/formancehq/ledger/verifharness/storeform"
	"github.com/formancehq/stack/libs/go-libs/logging"
	"github.com/formancehq/stack/libs/go-libs/metadata"
	"pgregory.net/rapid"
)

type c13Entry struct {
	Kind string
	Log  *ledger.Log
}

func c13Time(t *rapid.T, label string) ledger.Time {
	s := gen.TimestampString().Draw(t, label)
	ts, err := ledger.ParseTime(s)
	if err != nil {
		// the only spellings the API may refuse are those whose rounding to microseconds leaves the
		// range RFC 3339 can spell (year 10000): such a timestamp is not one "the API accepts"
		if raw, perr := time.Parse(time.RFC3339Nano, s); perr == nil && (raw.Round(time.Microsecond).Year() > 9999 || raw.UTC().Year() > 9999 || raw.UTC().Year() < 0) {
			ts, _ = ledger.ParseTime("9999-12-31T23:59:59.999999Z")
			return ts
		}
		t.Fatalf("HARNESS-ERROR generated timestamp %q refused: %v", s, err)
	}
	return ts
}

// c13LogDate draws a log date the way the system produces it: ledger.Now()
// at some instant, i.e. UTC rounded to microseconds (the drawn wall-clock
// fields are read as UTC; the clock never shows an instant outside years 0-9999).
func c13LogDate(t *rapid.T) ledger.Time {
	tt := c13Time(t, "logDate").Time
	u := time.Date(tt.Year(), tt.Month(), tt.Day(), tt.Hour(), tt.Minute(), tt.Second(), tt.Nanosecond(), time.UTC).Round(ledger.DatePrecision)
	if u.Year() > 9999 {
		u = u.Add(-time.Microsecond)
	}
	return ledger.Time{Time: u}
}

func c13Tx(t *rapid.T) *ledger.Transaction {
	n := rapid.IntRange(1, 5).Draw(t, "nPostings")
	ps := make([]ledger.Posting, n)
	for i := range ps {
		src := gen.Address().Draw(t, "src")
		dst := gen.Address().Draw(t, "dst")
		if rapid.IntRange(0, 4).Draw(t, "world") == 0 {
			src = "world"
		}
		ps[i] = ledger.NewPosting(src, dst, gen.Asset().Draw(t, "asset"), gen.Amount().Draw(t, "amount"))
	}
	tx := ledger.NewTransaction().WithPostings(ps...).
		WithMetadata(metadata.Metadata(gen.Metadata().Draw(t, "txMeta"))).
		WithDate(c13Time(t, "txDate")).
		WithID(new(big.Int).Set(gen.Amount().Draw(t, "txID")))
	if rapid.Bool().Draw(t, "hasRef") {
		tx = tx.WithReference(gen.MetaString().Draw(t, "ref"))
	}
	return tx
}

func c13TxTargetID(t *rapid.T) *big.Int {
	switch rapid.IntRange(0, 3).Draw(t, "idClass") {
	case 0:
		return big.NewInt(0)
	case 1:
		return new(big.Int).SetUint64(1<<63 - 1)
	case 2:
		return new(big.Int).SetUint64(1 << 63)
	default:
		return big.NewInt(int64(rapid.IntRange(0, 100000).Draw(t, "id")))
	}
}

func c13DrawEntry(t *rapid.T) c13Entry {
	kind := rapid.SampledFrom([]string{"new_tx", "new_tx_accmeta", "revert", "set_meta_account", "set_meta_tx", "del_meta_account", "del_meta_tx"}).Draw(t, "kind")
	var l *ledger.Log
	switch kind {
	case "new_tx":
		l = ledger.NewTransactionLogWithDate(c13Tx(t), nil, c13LogDate(t))
	case "new_tx_accmeta":
		am := map[string]metadata.Metadata{}
		for i, n := 0, rapid.IntRange(0, 3).Draw(t, "nAcc"); i < n; i++ {
			md := gen.Metadata().Draw(t, "accMeta")
			am[gen.Address().Draw(t, "acc")] = metadata.Metadata(md)
		}
		l = ledger.NewTransactionLogWithDate(c13Tx(t), am, c13LogDate(t))
	case "revert":
		l = ledger.NewRevertedTransactionLog(c13LogDate(t), c13TxTargetID(t), c13Tx(t))
	case "set_meta_account":
		l = ledger.NewSetMetadataOnAccountLog(c13LogDate(t), c13MetaAddress(t), metadata.Metadata(gen.Metadata().Draw(t, "md")))
	case "set_meta_tx":
		l = ledger.NewSetMetadataOnTransactionLog(c13LogDate(t), c13TxTargetID(t), metadata.Metadata(gen.Metadata().Draw(t, "md")))
	case "del_meta_account":
		l = ledger.NewDeleteMetadataLog(c13LogDate(t), ledger.DeleteMetadataLogPayload{TargetType: ledger.MetaTargetTypeAccount, TargetID: c13MetaAddress(t), Key: gen.MetaString().Draw(t, "key")})
	case "del_meta_tx":
		l = ledger.NewDeleteMetadataLog(c13LogDate(t), ledger.DeleteMetadataLogPayload{TargetType: ledger.MetaTargetTypeTransaction, TargetID: c13TxTargetID(t), Key: gen.MetaString().Draw(t, "key")})
	}
	if rapid.IntRange(0, 2).Draw(t, "hasIK") == 0 {
		ik := gen.MetaString().Draw(t, "ik")
		if len(ik) > 255 {
			ik = ik[:255]
		}
		l = l.WithIdempotencyKey(ik)
	}
	return c13Entry{Kind: kind, Log: l}
}

// c13MetaAddress is the account a metadata write names. The metadata routes of the API check the address
// on some paths only (the bulk elements and the delete route hand it to the engine as it comes), so the
// log may hold any string here: also characters JSON writes as escapes.
func c13MetaAddress(t *rapid.T) string {
	if rapid.IntRange(0, 4).Draw(t, "oddAddress") != 0 {
		return gen.Address().Draw(t, "acc")
	}
	return rapid.SampledFrom([]string{"r&d", "a<b", "a>b", "q\"uote", "back\\slash", "tab\tx", "line\nbreak", "u\u2028x", "u\u2029x", "é:ü", "ctl\x01x", "users:001&", "\\u0026"}).Draw(t, "oddAddressValue")
}

func c13StoreRoundTrip(cl *ledger.ChainedLog) (*ledger.ChainedLog, error) {
	return storeform.RoundTrip(cl)
}

func c13APIRoundTrip(cl *ledger.ChainedLog) (*ledger.ChainedLog, []byte, []byte, error) {
	b1, err := json.Marshal(cl)
	if err != nil {
		return nil, nil, nil, fmt.Errorf("marshal: %w", err)
	}
	out := &ledger.ChainedLog{}
	var uerr error
	if p := safely(func() { uerr = json.Unmarshal(b1, out) }); p != nil {
		return nil, b1, nil, fmt.Errorf("unmarshal panicked: %v", p)
	}
	if uerr != nil {
		return nil, b1, nil, fmt.Errorf("unmarshal: %w", uerr)
	}
	b2, err := json.Marshal(out)
	if err != nil {
		return nil, b1, nil, fmt.Errorf("re-marshal: %w", err)
	}
	return out, b1, b2, nil
}

// c13Perturb returns variants of l that differ in exactly one covered field.
func c13Perturb(l *ledger.Log) map[string]*ledger.Log {
	out := map[string]*ledger.Log{}
	cp := func() *ledger.Log { x := *l; return &x }
	{
		x := cp()
		x.IdempotencyKey += "x"
		out["idempotencyKey"] = x
	}
	{
		x := cp()
		x.Date = ledger.Time{Time: x.Date.Time.Add(ledger.DatePrecision)}
		out["date"] = x
	}
	switch p := l.Data.(type) {
	case ledger.NewTransactionLogPayload:
		tx := *p.Transaction
		tx.Postings = append(ledger.Postings{}, tx.Postings...)
		tx.Postings[0].Amount = new(big.Int).Add(tx.Postings[0].Amount, big.NewInt(1))
		x := cp()
		x.Data = ledger.NewTransactionLogPayload{Transaction: &tx, AccountMetadata: p.AccountMetadata}
		out["amount"] = x
		tx2 := *p.Transaction
		tx2.Reference += "r"
		y := cp()
		y.Data = ledger.NewTransactionLogPayload{Transaction: &tx2, AccountMetadata: p.AccountMetadata}
		out["reference"] = y
		tx3 := *p.Transaction
		tx3.Metadata = tx3.Metadata.Copy()
		if tx3.Metadata == nil {
			tx3.Metadata = metadata.Metadata{}
		}
		tx3.Metadata["__extra"] = "1"
		z := cp()
		z.Data = ledger.NewTransactionLogPayload{Transaction: &tx3, AccountMetadata: p.AccountMetadata}
		out["txMetadata"] = z
		w := cp()
		w.Type = ledger.RevertedTransactionLogType
		out["type"] = w
	case ledger.RevertedTransactionLogPayload:
		x := cp()
		x.Data = ledger.RevertedTransactionLogPayload{RevertedTransactionID: new(big.Int).Add(p.RevertedTransactionID, big.NewInt(1)), RevertTransaction: p.RevertTransaction}
		out["revertedID"] = x
		tx := *p.RevertTransaction
		tx.Postings = append(ledger.Postings{}, tx.Postings...)
		tx.Postings[len(tx.Postings)-1].Source += "x"
		y := cp()
		y.Data = ledger.RevertedTransactionLogPayload{RevertedTransactionID: p.RevertedTransactionID, RevertTransaction: &tx}
		out["postingSource"] = y
	case ledger.SetMetadataLogPayload:
		md := p.Metadata.Copy()
		if md == nil {
			md = metadata.Metadata{}
		}
		md["__extra"] = "1"
		x := cp()
		x.Data = ledger.SetMetadataLogPayload{TargetType: p.TargetType, TargetID: p.TargetID, Metadata: md}
		out["metadata"] = x
		y := cp()
		y.Data = ledger.SetMetadataLogPayload{TargetType: p.TargetType, TargetID: c13BumpID(p.TargetID), Metadata: p.Metadata}
		out["targetID"] = y
		w := cp()
		w.Type = ledger.DeleteMetadataLogType
		out["type"] = w
	case ledger.DeleteMetadataLogPayload:
		x := cp()
		x.Data = ledger.DeleteMetadataLogPayload{TargetType: p.TargetType, TargetID: p.TargetID, Key: p.Key + "k"}
		out["key"] = x
		y := cp()
		y.Data = ledger.DeleteMetadataLogPayload{TargetType: p.TargetType, TargetID: c13BumpID(p.TargetID), Key: p.Key}
		out["targetID"] = y
	}
	return out
}

func c13BumpID(id any) any {
	switch v := id.(type) {
	case string:
		return v + "x"
	case *big.Int:
		return new(big.Int).Add(v, big.NewInt(1))
	case uint64:
		return v + 1
	}
	return id
}

// c13SameTyped compares the fields of two chained logs that keep their Go
// type across a round trip.
func c13SameTyped(a, b *ledger.ChainedLog) string {
	if a.Type != b.Type {
		return fmt.Sprintf("type %v != %v", a.Type, b.Type)
	}
	if a.ID.Cmp(b.ID) != 0 {
		return fmt.Sprintf("id %v != %v", a.ID, b.ID)
	}
	if !bytes.Equal(a.Hash, b.Hash) {
		return "hash differs"
	}
	if a.IdempotencyKey != b.IdempotencyKey {
		return fmt.Sprintf("idempotency key %q != %q", a.IdempotencyKey, b.IdempotencyKey)
	}
	if !a.Date.Equal(b.Date) {
		return fmt.Sprintf("date %v != %v", a.Date, b.Date)
	}
	if reflect.TypeOf(a.Data) != reflect.TypeOf(b.Data) {
		return fmt.Sprintf("payload type %T != %T", a.Data, b.Data)
	}
	ja, _ := json.Marshal(a.Data)
	jb, _ := json.Marshal(b.Data)
	if !bytes.Equal(ja, jb) {
		return fmt.Sprintf("payload %s != %s", ja, jb)
	}
	return ""
}

// c13EngineWritten: the entries a real Commander writes (every kind of write, with and without
// idempotency key, metadata nil / empty / filled) are read back from their stored form and re-verified.
func c13EngineWritten(rt *rapid.T, c *evid.Collector) {
	store, commander, stop := enginesim.Standalone()
	defer func() { stop() }()
	ctx := logging.ContextWithLogger(context.Background(), nopLog{})
	n := rapid.IntRange(2, 8).Draw(rt, "ewWrites")
	txs := 0
	var desc strings.Builder
	restartAt := rapid.IntRange(-n, n-1).Draw(rt, "ewRestartAt") // negative: no restart
	for i := 0; i < n; i++ {
		if i == restartAt && i > 0 {
			// the process is restarted: a new Commander picks the chain up from the store
			stop()
			commander, stop = enginesim.StandaloneOver(store)
			desc.WriteString("restart;")
		}
		p := command.Parameters{}
		if rapid.Bool().Draw(rt, "ewKeyed") {
			p.IdempotencyKey = fmt.Sprintf("key-%d", i)
		}
		// previews in between: they write nothing, so the chain of what IS written must still verify
		p.DryRun = rapid.IntRange(0, 3).Draw(rt, "ewPreview") == 0
		var md metadata.Metadata
		switch rapid.IntRange(0, 2).Draw(rt, "ewMeta") {
		case 1:
			md = metadata.Metadata{}
		case 2:
			md = metadata.Metadata{"k": gen.MetaString().Draw(rt, "ewMetaValue")}
		}
		kind := rapid.SampledFrom([]string{"create", "create", "revert", "save_meta_account", "save_meta_tx", "delete_meta_account", "delete_meta_tx"}).Draw(rt, "ewKind")
		if txs == 0 && kind != "save_meta_account" && kind != "delete_meta_account" {
			kind = "create"
		}
		var err error
		pn := safely(func() {
			switch kind {
			case "create":
				td := ledger.TransactionData{Postings: ledger.Postings{ledger.NewPosting("world", "a", "USD", new(big.Int).Set(gen.Amount().Draw(rt, "ewAmount")))}, Metadata: md}
				if rapid.Bool().Draw(rt, "ewTimestamp") {
					// the client states when the transaction took place, in its own time zone (whatever is later
					// derived from this transaction -- a revert -- is dated by the system, not by the client)
					td.Timestamp = c13Time(rt, "ewTimestampValue")
				}
				_, err = commander.CreateTransaction(ctx, p, ledger.TxToScriptData(td, false))
				if err == nil && !p.DryRun {
					txs++
				}
			case "revert":
				_, err = commander.RevertTransaction(ctx, p, big.NewInt(int64(rapid.IntRange(0, txs-1).Draw(rt, "ewTarget"))), true)
				if err == nil && !p.DryRun {
					txs++
				}
			case "save_meta_account":
				err = commander.SaveMeta(ctx, p, ledger.MetaTargetTypeAccount, "a", md)
			case "save_meta_tx":
				err = commander.SaveMeta(ctx, p, ledger.MetaTargetTypeTransaction, big.NewInt(int64(rapid.IntRange(0, txs-1).Draw(rt, "ewTarget"))), md)
			case "delete_meta_account":
				err = commander.DeleteMetadata(ctx, p, ledger.MetaTargetTypeAccount, "a", "k")
			case "delete_meta_tx":
				err = commander.DeleteMetadata(ctx, p, ledger.MetaTargetTypeTransaction, big.NewInt(int64(rapid.IntRange(0, txs-1).Draw(rt, "ewTarget"))), "k")
			}
		})
		if pn != nil {
			violation(rt, c, "C13/engine/panic", "write %d (%s) panicked: %v", i, kind, pn)
			return
		}
		fmt.Fprintf(&desc, "%s/key=%v/preview=%v/meta=%d;", kind, p.IdempotencyKey != "", p.DryRun, len(md))
	}
	c13JudgeStore(rt, c, store, "engine-written", desc.String())
}

// c13HTTPWritten: entries written through the HTTP API. Two inputs of a write do not arrive as JSON and are
// therefore not text the decoder has already made valid: the Idempotency-Key header and the metadata key in
// the path of the delete routes. Whatever bytes a client puts there, the entry that gets written must read
// back and re-verify.
func c13HTTPWritten(rt *rapid.T, c *evid.Collector) {
	store, commander, stop := enginesim.Standalone()
	defer stop()
	be := httpsim.NewFakeBackend()
	be.Override = func(name string) backend.Ledger {
		return &httpsim.EngineLedger{FakeLedger: &httpsim.FakeLedger{Name: name}, Commander: commander}
	}
	router := httpsim.NewRouter(be, false)
	keys := []string{"", "plain", "caf\xe9", "\xff\xfe", "k\x80", "\xc3\x28", "tr\xe8s long \xff key", "é", "\ufffd"}
	pathKeys := []string{"k", "%FF", "caf%E9", "%C3%28", "a%80b", "%EF%BF%BD", "%C3%A9"}
	n := rapid.IntRange(2, 6).Draw(rt, "hwWrites")
	var desc strings.Builder
	// something to annotate
	if rec := httpsim.Serve(router, "POST", "/api/ledger/v2/l1/transactions", map[string]string{"Content-Type": "application/json"}, `{"postings":[{"source":"world","destination":"a","asset":"USD","amount":5}],"metadata":{"k":"v"}}`); rec.Code >= 300 {
		harnessError(rt, "cannot create the initial transaction: %d %s", rec.Code, clip(rec.Body.String()))
	}
	for i := 0; i < n; i++ {
		prefix := rapid.SampledFrom([]string{"/api/ledger/v2/l1", "/api/ledger/l1"}).Draw(rt, "hwAPI")
		hdr := map[string]string{"Content-Type": "application/json"}
		if ik := rapid.SampledFrom(keys).Draw(rt, "hwIK"); ik != "" {
			hdr["Idempotency-Key"] = ik + fmt.Sprint(i) // (never a replay)
		}
		var method, path, body string
		switch rapid.IntRange(0, 4).Draw(rt, "hwKind") {
		case 0:
			method, path, body = "POST", "/transactions", `{"postings":[{"source":"world","destination":"a","asset":"USD","amount":1}],"metadata":{}}`
		case 1:
			method, path, body = "POST", "/accounts/a/metadata", `{"k":"v"}`
		case 2:
			method, path, body = "POST", "/transactions/0/metadata", `{"k":"v"}`
		case 3:
			method, path = "DELETE", "/accounts/a/metadata/"+rapid.SampledFrom(pathKeys).Draw(rt, "hwPathKey")
		default:
			if prefix == "/api/ledger/l1" {
				method, path, body = "POST", "/transactions", `{"postings":[{"source":"world","destination":"b","asset":"USD","amount":2}],"metadata":{}}`
			} else {
				method, path = "DELETE", "/transactions/0/metadata/"+rapid.SampledFrom(pathKeys).Draw(rt, "hwPathKey")
			}
		}
		var rec *httptest.ResponseRecorder
		if pn := safely(func() { rec = httpsim.Serve(router, method, prefix+path, hdr, body) }); pn != nil {
			violation(rt, c, "C13/http/panic", "%s %s panicked: %v", method, prefix+path, pn)
			return
		}
		fmt.Fprintf(&desc, "%s %s ik=%q -> %d;", method, prefix+path, hdr["Idempotency-Key"], rec.Code)
	}
	c13JudgeStore(rt, c, store, "http-written", desc.String())
}

// c13JudgeStore applies the store-row and re-hash oracles to every entry a real Commander persisted.
func c13JudgeStore(rt *rapid.T, c *evid.Collector, store *enginesim.ModelStore, family, writes string) {
	var prevStore *ledger.ChainedLog
	for i, e := range store.Entries {
		cl := e.Log
		raw, _ := json.Marshal(cl)
		kind := strings.ToLower(cl.Type.String())
		c.Case(family+":"+string(raw), true, []string{"family:" + family, "kind:" + kind, fmt.Sprintf("keyed:%v", cl.IdempotencyKey != "")}, func() any {
			return map[string]any{"family": family, "writes": writes, "position": i, "chained": json.RawMessage(raw)}
		})
		st, err := c13StoreRoundTrip(cl)
		if err != nil {
			violation(rt, c, "C13/store/"+kind+"/decode", "entry %d written by the engine cannot be read back from its stored row: %v\njson=%s", i, err, raw)
			return
		}
		if d := c13SameTyped(cl, st); d != "" {
			violation(rt, c, "C13/store/"+kind+"/field", "entry %d written by the engine changed through the store row: %s", i, d)
			return
		}
		var re *ledger.ChainedLog
		if p := safely(func() { re = st.Log.ChainLog(prevStore) }); p != nil {
			violation(rt, c, "C13/rehash/"+kind+"/panic", "re-chaining entry %d written by the engine panicked: %v", i, p)
			return
		}
		if !bytes.Equal(re.Hash, cl.Hash) || re.ID.Cmp(cl.ID) != 0 {
			violation(rt, c, "C13/rehash/"+kind+"/engine-written", "entry %d (%s, written by the engine through: %s): the hash recomputed from the content read back and the previous entry differs from the stored hash\njson=%s", i, kind, writes, raw)
			return
		}
		prevStore = st
	}
}

func TestC13(t *testing.T) {
	c := evid.New("C13")
	c.Rule = "generated chains of 1-12 log entries (all 7 kind x target shapes built with the code's constructors; API-format timestamps through ledger.ParseTime, years 0000-9999 with both ends of the range in UTC and with offsets pointing out of it; amounts to 10^40; nil/empty/unicode/HTML/long metadata; references; idempotency keys); one case in ten instead lets a real Commander write 2-8 entries (every kind of write, keyed or not, metadata nil / empty / filled, a quarter of the requests previews that must leave the chain alone) and judges what it persisted; one case in fifteen sends 2-6 writes of both API versions through the real routers to a real Commander, with Idempotency-Key headers and metadata keys in delete paths that are arbitrary bytes (not valid UTF-8 among them), and judges what was persisted; one case in twenty judges the entries of a concurrent history run under the simulator (overlapping requests, bursts, a restart). evaluations = log entries judged. Non-trivial = entry that is not a bare new-transaction with one posting, no metadata, no key; distinct = by canonical JSON of the entry."
	c.Assumptions = []string{
		"PostgreSQL jsonb is emulated by a generic decode (exact numbers) and re-encode; timestamptz by an instant truncated to microseconds returned as time.Time",
		"log dates are what ledger.Now() yields (UTC, microsecond precision), as in every constructor call of the engine",
		"strings contain no NUL (jsonb refuses it; that is a store failure, not a round-trip question)",
	}
	runProp(t, c, func(rt *rapid.T) {
		if rapid.IntRange(0, 9).Draw(rt, "engineWritten") == 0 {
			c13EngineWritten(rt, c)
			return
		}
		if rapid.IntRange(0, 14).Draw(rt, "httpWritten") == 0 {
			c13HTTPWritten(rt, c)
			return
		}
		if rapid.IntRange(0, 19).Draw(rt, "concurrentlyWritten") == 0 {
			// entries written by requests that overlap (the simulator's schedules; the store keeps what an entry
			// held at the moment it was inserted, as a database does): each must read back and re-verify
			hcfg := enginesim.DefaultConfig()
			hcfg.WideBurstPct = 30
			hcfg.Crashes = 1
			plan := enginesim.GenPlan(rt, hcfg)
			r := runEngine(t, rt, c, plan)
			if r == nil {
				return
			}
			c13JudgeStore(rt, c, r.Store, "concurrently-written", enginesim.TraceKey(r))
			return
		}
		n := rapid.IntRange(1, 12).Draw(rt, "chainLen")
		entries := make([]c13Entry, n)
		for i := range entries {
			entries[i] = c13DrawEntry(rt)
		}
		var prev, prevAPI, prevStore *ledger.ChainedLog
		seenHash := map[string]int{}
		for i, e := range entries {
			var cl *ledger.ChainedLog
			if p := safely(func() { cl = e.Log.ChainLog(prev) }); p != nil {
				violation(rt, c, "C13/chain/panic", "ChainLog panicked on entry %d (%s): %v", i, e.Kind, p)
				return
			}
			raw, _ := json.Marshal(cl)
			key := string(raw)
			nontrivial := true
			if p, ok := e.Log.Data.(ledger.NewTransactionLogPayload); ok && len(p.Transaction.Postings) == 1 && len(p.Transaction.Metadata) == 0 && len(p.AccountMetadata) == 0 && e.Log.IdempotencyKey == "" {
				nontrivial = false
			}
			c.Case(key, nontrivial, []string{"kind:" + e.Kind, fmt.Sprintf("pos:%d", min(i, 3))}, func() any {
				return map[string]any{"kind": e.Kind, "position": i, "chained": json.RawMessage(raw)}
			})
			if int64(i) != cl.ID.Int64() {
				violation(rt, c, "C13/chain/id", "entry %d got id %v", i, cl.ID)
				return
			}
			if j, dup := seenHash[string(cl.Hash)]; dup {
				violation(rt, c, "C13/hash/collision", "entries %d and %d share a hash", j, i)
				return
			}
			seenHash[string(cl.Hash)] = i

			// (1) API form
			api, b1, b2, err := c13APIRoundTrip(cl)
			if err != nil {
				violation(rt, c, "C13/api/"+e.Kind+"/decode", "entry %d (%s) does not survive its JSON form: %v\njson=%s", i, e.Kind, err, b1)
				return
			}
			if !bytes.Equal(b1, b2) {
				violation(rt, c, "C13/api/"+e.Kind+"/changed", "entry %d (%s) changed through JSON:\n was %s\n now %s", i, e.Kind, b1, b2)
				return
			}
			if d := c13SameTyped(cl, api); d != "" {
				violation(rt, c, "C13/api/"+e.Kind+"/field", "entry %d (%s): %s", i, e.Kind, d)
				return
			}
			// (2) store form
			st, err := c13StoreRoundTrip(cl)
			if err != nil {
				violation(rt, c, "C13/store/"+e.Kind+"/decode", "entry %d (%s) cannot be read back from its stored row: %v\njson=%s", i, e.Kind, err, b1)
				return
			}
			if d := c13SameTyped(cl, st); d != "" {
				violation(rt, c, "C13/store/"+e.Kind+"/field", "entry %d (%s) changed through the store row: %s", i, e.Kind, d)
				return
			}
			// (3) re-verification from round-tripped content and round-tripped previous
			for name, pair := range map[string][2]*ledger.ChainedLog{"api": {api, prevAPI}, "store": {st, prevStore}} {
				var re *ledger.ChainedLog
				if p := safely(func() { re = pair[0].Log.ChainLog(pair[1]) }); p != nil {
					violation(rt, c, "C13/rehash/"+e.Kind+"/panic", "re-chaining the %s form of entry %d panicked: %v", name, i, p)
					return
				}
				if !bytes.Equal(re.Hash, cl.Hash) || re.ID.Cmp(cl.ID) != 0 {
					violation(rt, c, "C13/rehash/"+e.Kind+"/"+name, "entry %d (%s): hash recomputed from the %s form differs from the stored hash (id %v vs %v)\njson=%s", i, e.Kind, name, re.ID, cl.ID, b1)
					return
				}
			}
			// (4) the hash covers previous hash, type, payload, date, key
			if prev != nil {
				pp := *prev
				pp.Hash = append([]byte(nil), prev.Hash...)
				pp.Hash[0] ^= 1
				if bytes.Equal(e.Log.ChainLog(&pp).Hash, cl.Hash) {
					violation(rt, c, "C13/hash/ignores-previous", "entry %d: hash unchanged when the previous hash changes", i)
					return
				}
			}
			for field, variant := range c13Perturb(e.Log) {
				var h []byte
				if p := safely(func() { h = variant.ChainLog(prev).Hash }); p != nil {
					continue
				}
				if bytes.Equal(h, cl.Hash) {
					violation(rt, c, "C13/hash/ignores-"+field, "entry %d (%s): hash unchanged when %s changes", i, e.Kind, field)
					return
				}
			}
			prev, prevAPI, prevStore = cl, api, st
		}
	})
}

// FuzzC13 drives the same round-trip oracle from coverage-guided bytes: the
// fuzzer chooses kind, strings, amounts and instants; the entry is still built
// with the code's own constructors (the property is about entries the system writes).
func FuzzC13(f *testing.F) {
	f.Add(uint8(0), "k", "v", uint64(1), int64(946684800), uint32(0), "ref")
	f.Add(uint8(3), "<b>", "é\"\\", uint64(1<<63), int64(253402300799), uint32(999999999), "")
	f.Add(uint8(6), "", " ", uint64(0), int64(-62135596800), uint32(1), "x")
	f.Fuzz(func(t *testing.T, kind uint8, s1, s2 string, n uint64, sec int64, nsec uint32, ref string) {
		if strings.ContainsRune(s1+s2+ref, 0) || !utf8.ValidString(s1) || !utf8.ValidString(s2) || !utf8.ValidString(ref) || len(s1) > 255 {
			return
		}
		if sec < -62135596800 || sec > 253402300000 {
			return
		}
		at := ledger.Time{Time: time.Unix(sec, int64(nsec%1000000000)).UTC().Round(ledger.DatePrecision)}
		amt := new(big.Int).Lsh(new(big.Int).SetUint64(n), uint(kind%3)*40)
		tx := ledger.NewTransaction().WithPostings(ledger.NewPosting("world", "a:b", "USD/2", amt)).
			WithMetadata(metadata.Metadata{s1: s2}).WithDate(at).WithID(new(big.Int).SetUint64(n)).WithReference(ref)
		var l *ledger.Log
		switch kind % 7 {
		case 0:
			l = ledger.NewTransactionLogWithDate(tx, nil, at)
		case 1:
			l = ledger.NewTransactionLogWithDate(tx, map[string]metadata.Metadata{"a:b": {s1: s2}}, at)
		case 2:
			l = ledger.NewRevertedTransactionLog(at, new(big.Int).SetUint64(n), tx)
		case 3:
			l = ledger.NewSetMetadataOnAccountLog(at, "a:b", metadata.Metadata{s1: s2})
		case 4:
			l = ledger.NewSetMetadataOnTransactionLog(at, new(big.Int).SetUint64(n), metadata.Metadata{s1: s2})
		case 5:
			l = ledger.NewDeleteMetadataLog(at, ledger.DeleteMetadataLogPayload{TargetType: ledger.MetaTargetTypeAccount, TargetID: "a:b", Key: s1})
		default:
			l = ledger.NewDeleteMetadataLog(at, ledger.DeleteMetadataLogPayload{TargetType: ledger.MetaTargetTypeTransaction, TargetID: new(big.Int).SetUint64(n), Key: s1})
		}
		if kind&8 != 0 {
			l = l.WithIdempotencyKey(s1)
		}
		prev := ledger.NewSetMetadataOnAccountLog(at, "p", metadata.Metadata{}).ChainLog(nil)
		cl := l.ChainLog(prev)
		api, b1, b2, err := c13APIRoundTrip(cl)
		if err != nil {
			t.Fatalf("VERIF-VIOLATION property=C13 signature=C13/fuzz/api-decode\n%v\n%s", err, b1)
		}
		if !bytes.Equal(b1, b2) {
			t.Fatalf("VERIF-VIOLATION property=C13 signature=C13/fuzz/api-changed\n%s\n%s", b1, b2)
		}
		st, err := c13StoreRoundTrip(cl)
		if err != nil {
			t.Fatalf("VERIF-VIOLATION property=C13 signature=C13/fuzz/store-decode\n%v\n%s", err, b1)
		}
		for name, rt := range map[string]*ledger.ChainedLog{"api": api, "store": st} {
			if d := c13SameTyped(cl, rt); d != "" {
				t.Fatalf("VERIF-VIOLATION property=C13 signature=C13/fuzz/%s-field\n%s\n%s", name, d, b1)
			}
			if re := rt.Log.ChainLog(prev); !bytes.Equal(re.Hash, cl.Hash) {
				t.Fatalf("VERIF-VIOLATION property=C13 signature=C13/fuzz/%s-rehash\n%s", name, b1)
			}
		}
	})
}
