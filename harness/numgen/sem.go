package numgen

import (
	"fmt"
	"math/big"
	"regexp"
	"sort"
	"strings"
)

// ---------------------------------------------------------------------------
// values

type Value interface{ vtype() Type }

type VAccount string
type VAsset string
type VNumber struct{ V *big.Int }
type VString string
type VMonetary struct {
	Asset  string
	Amount *big.Int
}
type VPortion struct{ R *big.Rat }

func (VAccount) vtype() Type  { return TAccount }
func (VAsset) vtype() Type    { return TAsset }
func (VNumber) vtype() Type   { return TNumber }
func (VString) vtype() Type   { return TString }
func (VMonetary) vtype() Type { return TMonetary }
func (VPortion) vtype() Type  { return TPortion }

// RenderValue is the documented string form of a value in metadata.
func RenderValue(v Value) string {
	switch x := v.(type) {
	case VAccount:
		return string(x)
	case VAsset:
		return string(x)
	case VNumber:
		return x.V.String()
	case VString:
		return string(x)
	case VMonetary:
		return x.Asset + " " + x.Amount.String()
	case VPortion:
		return x.R.String() // n/d in lowest terms
	}
	return "?"
}

// ---------------------------------------------------------------------------
// environment

// Env is everything a run depends on besides the program text.
type Env struct {
	Vars     map[string]string              // bindings as the API passes them (strings)
	Balances map[string]map[string]*big.Int // account -> asset -> balance
	Meta     map[string]map[string]string   // account -> key -> value
	ReqMeta  map[string]string              // metadata supplied with the request
}

func (e *Env) Balance(acc, asset string) *big.Int {
	if m, ok := e.Balances[acc]; ok {
		if b, ok := m[asset]; ok {
			return new(big.Int).Set(b)
		}
	}
	return new(big.Int)
}

// Outcome classes.
const (
	OK           = "ok"
	Insufficient = "insufficient-funds"
	InvalidVars  = "invalid-vars"
	Rejected     = "rejected" // any other reported error
)

type Posting struct {
	Source, Destination, Asset string
	Amount                     *big.Int
}

type Result struct {
	Class       string
	Reason      string
	Groups      [][]Posting // postings per statement (empty for non-send statements)
	Totals      []*big.Int  // per statement: the total a send handed to its destination (nil otherwise)
	TxMeta      map[string]string
	AccountMeta map[string]map[string]string
	// Balances after execution for every (account, asset) the program touched.
	Balances map[string]map[string]*big.Int
	// AnyErrorOK: the rejection is certain but its class is not pinned by the language
	// (negative amounts are refused as insufficient funds or as invalid, depending on the source).
	AnyErrorOK bool
	// KeptReserve reports that an ordered destination had to protect a `kept` reserve from a later
	// clause (the shape of known finding C08/dest-inorder/kept-reserve-overconsumed).
	KeptReserve bool
	// OverdraftOtherAsset reports that a source's overdraft bound is written in another asset than the send's.
	OverdraftOtherAsset bool
	// Grants: largest overdraft granted per account/asset ("" = unbounded) — used by C01.
	Grants    map[string]*big.Int
	Unbounded map[string]bool
}

func (r *Result) Postings() []Posting {
	var out []Posting
	for _, g := range r.Groups {
		out = append(out, g...)
	}
	return out
}

// Normalise drops zero postings and merges adjacent postings with identical
// source, destination and asset.
func Normalise(ps []Posting) []Posting {
	var out []Posting
	for _, p := range ps {
		if p.Amount.Sign() == 0 {
			continue
		}
		if n := len(out); n > 0 && out[n-1].Source == p.Source && out[n-1].Destination == p.Destination && out[n-1].Asset == p.Asset {
			out[n-1].Amount = new(big.Int).Add(out[n-1].Amount, p.Amount)
			continue
		}
		out = append(out, Posting{p.Source, p.Destination, p.Asset, new(big.Int).Set(p.Amount)})
	}
	return out
}

func PostingsString(ps []Posting) string {
	var sb strings.Builder
	for _, p := range ps {
		fmt.Fprintf(&sb, "%s->%s %s %s; ", p.Source, p.Destination, p.Asset, p.Amount)
	}
	return sb.String()
}

// ---------------------------------------------------------------------------
// parsing of bound values (the documented string formats)

var (
	accountRe = regexp.MustCompile(`^[a-zA-Z0-9_]+(?:-[a-zA-Z0-9_]+)*(:[a-zA-Z0-9_]+(?:-[a-zA-Z0-9_]+)*)*$`)
	assetRe   = regexp.MustCompile(`^[A-Z][A-Z0-9]{0,16}(/\d{1,6})?$`)
	percentRe = regexp.MustCompile(`^([0-9]+)(?:[.]([0-9]+))?%$`)
	fracRe    = regexp.MustCompile(`^([0-9]+)\s?/\s?([0-9]+)$`)
)

// ParsePortion parses "n/d" or "x.y%"; ok=false if malformed or outside [0,1].
func ParsePortion(s string) (*big.Rat, bool) {
	var r *big.Rat
	if m := percentRe.FindStringSubmatch(s); m != nil {
		v, ok := new(big.Rat).SetString(m[1] + "." + m[2])
		if !ok {
			v, ok = new(big.Rat).SetString(m[1])
			if !ok {
				return nil, false
			}
		}
		r = v.Mul(v, big.NewRat(1, 100))
	} else if m := fracRe.FindStringSubmatch(s); m != nil {
		d, _ := new(big.Int).SetString(m[2], 10)
		if d.Sign() == 0 {
			return nil, false
		}
		n, _ := new(big.Int).SetString(m[1], 10)
		r = new(big.Rat).SetFrac(n, d)
	} else {
		return nil, false
	}
	if r.Sign() < 0 || r.Cmp(big.NewRat(1, 1)) > 0 {
		return nil, false
	}
	return r, true
}

func parseBound(t Type, s string) (Value, bool) {
	switch t {
	case TAccount:
		if !accountRe.MatchString(s) {
			return nil, false
		}
		return VAccount(s), true
	case TAsset:
		if !assetRe.MatchString(s) {
			return nil, false
		}
		return VAsset(s), true
	case TNumber:
		v, ok := new(big.Int).SetString(s, 10)
		if !ok {
			return nil, false
		}
		return VNumber{v}, true
	case TString:
		return VString(s), true
	case TMonetary:
		parts := strings.SplitN(s, " ", 2)
		if len(parts) != 2 || !assetRe.MatchString(parts[0]) {
			return nil, false
		}
		v, ok := new(big.Int).SetString(parts[1], 10)
		if !ok || v.Sign() < 0 {
			return nil, false
		}
		return VMonetary{parts[0], v}, true
	case TPortion:
		r, ok := ParsePortion(s)
		if !ok {
			return nil, false
		}
		return VPortion{r}, true
	}
	return nil, false
}

// ---------------------------------------------------------------------------
// the interpreter

type part struct {
	acc string
	amt *big.Int
}

type stop struct {
	class  string
	reason string
	any    bool
}

type interp struct {
	env  *Env
	vars map[string]Value
	bal  map[string]map[string]*big.Int
	res  *Result
	cur  []Posting
	tot  *big.Int
}

func (in *interp) fail(class, format string, args ...any) {
	panic(stop{class: class, reason: fmt.Sprintf(format, args...)})
}

func (in *interp) b(acc, asset string) *big.Int {
	m, ok := in.bal[acc]
	if !ok {
		m = map[string]*big.Int{}
		in.bal[acc] = m
	}
	v, ok := m[asset]
	if !ok {
		v = in.env.Balance(acc, asset)
		m[asset] = v
	}
	return v
}

func (in *interp) setb(acc, asset string, v *big.Int) {
	in.b(acc, asset)
	in.bal[acc][asset] = v
}

func (in *interp) eval(e Expr) Value {
	switch x := e.(type) {
	case LitAccount:
		return VAccount(x.Name)
	case LitAsset:
		return VAsset(x.Name)
	case LitNumber:
		return VNumber{new(big.Int).Set(x.V)}
	case LitString:
		return VString(x.S)
	case LitPortion:
		r, ok := ParsePortion(x.Text)
		if !ok {
			in.fail(Rejected, "bad portion literal %s", x.Text)
		}
		return VPortion{r}
	case LitMonetary:
		a := in.eval(x.Asset).(VAsset)
		return VMonetary{string(a), new(big.Int).Set(x.Amount)}
	case VarRef:
		return in.vars[x.Name]
	case BinOp:
		l, r := in.eval(x.L), in.eval(x.R)
		switch lv := l.(type) {
		case VNumber:
			rv := r.(VNumber)
			if x.Op == '+' {
				return VNumber{new(big.Int).Add(lv.V, rv.V)}
			}
			return VNumber{new(big.Int).Sub(lv.V, rv.V)}
		case VMonetary:
			rv := r.(VMonetary)
			if lv.Asset != rv.Asset {
				in.fail(Rejected, "arithmetic on different assets %s and %s", lv.Asset, rv.Asset)
			}
			if x.Op == '+' {
				return VMonetary{lv.Asset, new(big.Int).Add(lv.Amount, rv.Amount)}
			}
			return VMonetary{lv.Asset, new(big.Int).Sub(lv.Amount, rv.Amount)}
		}
	}
	panic(fmt.Sprintf("numgen: cannot evaluate %T", e))
}

// Allocate: floor(total*p_i) each, then one extra unit to the earliest entries
// until the sum is total (statement of C03).
func Allocate(total *big.Int, ps []*big.Rat) []*big.Int {
	out := make([]*big.Int, len(ps))
	sum := new(big.Int)
	for i, p := range ps {
		v := new(big.Int).Mul(total, p.Num())
		v.Quo(v, p.Denom())
		out[i] = v
		sum.Add(sum, v)
	}
	for i := range out {
		if sum.Cmp(total) < 0 {
			out[i].Add(out[i], big.NewInt(1))
			sum.Add(sum, big.NewInt(1))
		}
	}
	return out
}

func (in *interp) portions(ps []Portion) []*big.Rat {
	out := make([]*big.Rat, len(ps))
	total := new(big.Rat)
	rem := -1
	for i, p := range ps {
		switch p.Kind {
		case PConst:
			r, ok := ParsePortion(p.Text)
			if !ok {
				in.fail(Rejected, "bad portion %s", p.Text)
			}
			out[i] = r
			total.Add(total, r)
		case PVar:
			out[i] = in.vars[p.Text].(VPortion).R
			total.Add(total, out[i])
		case PRemaining:
			rem = i
		}
	}
	if total.Cmp(big.NewRat(1, 1)) > 0 {
		in.fail(Rejected, "sum of portions exceeds 100%%")
	}
	if rem >= 0 {
		out[rem] = new(big.Rat).Sub(big.NewRat(1, 1), total)
	}
	return out
}

func total(ps []part) *big.Int {
	t := new(big.Int)
	for _, p := range ps {
		t.Add(t, p.amt)
	}
	return t
}

// takeFront removes up to n from the front of ps.
func takeFront(ps []part, n *big.Int) (taken, rest []part) {
	need := new(big.Int).Set(n)
	i := 0
	for ; i < len(ps) && need.Sign() > 0; i++ {
		a := ps[i].amt
		if a.Cmp(need) > 0 {
			taken = append(taken, part{ps[i].acc, new(big.Int).Set(need)})
			rest = append(rest, part{ps[i].acc, new(big.Int).Sub(a, need)})
			need = new(big.Int)
			i++
			break
		}
		taken = append(taken, part{ps[i].acc, new(big.Int).Set(a)})
		need.Sub(need, a)
	}
	rest = append(rest, ps[i:]...)
	return taken, rest
}

func (in *interp) repay(ps []part, asset string) {
	for _, p := range ps {
		if p.acc == "world" {
			continue
		}
		in.setb(p.acc, asset, new(big.Int).Add(in.b(p.acc, asset), p.amt))
	}
}

func (in *interp) grant(acc, asset string, amt *big.Int, unbounded bool) {
	k := acc + "/" + asset
	if unbounded {
		in.res.Unbounded[k] = true
		return
	}
	if g, ok := in.res.Grants[k]; !ok || amt.Cmp(g) > 0 {
		in.res.Grants[k] = new(big.Int).Set(amt)
	}
}

// avail withdraws everything the source can give and returns it in order,
// plus the account that can give without limit (world / unbounded overdraft).
func (in *interp) avail(s Source, asset string) (ps []part, fallback string) {
	switch x := s.(type) {
	case SrcAccount:
		acc := string(in.eval(x.Acc).(VAccount))
		if acc == "world" {
			return []part{{"world", new(big.Int)}}, "world"
		}
		od := new(big.Int)
		if x.Overdraft != nil {
			if x.Overdraft.Unbounded {
				fallback = acc
				in.grant(acc, asset, nil, true)
			} else {
				m := in.eval(x.Overdraft.Amount).(VMonetary)
				if m.Asset != asset {
					// an overdraft in one asset cannot fund a send of another: the statement contradicts itself
					in.res.OverdraftOtherAsset = true
					panic(stop{class: Rejected, reason: fmt.Sprintf("overdraft of %s bounded in %s on a send of %s", acc, m.Asset, asset), any: true})
				}
				od = m.Amount
				in.grant(acc, asset, od, false)
			}
		}
		t := new(big.Int).Add(in.b(acc, asset), od)
		if t.Sign() > 0 {
			in.setb(acc, asset, new(big.Int).Neg(od))
			return []part{{acc, t}}, fallback
		}
		return []part{{acc, new(big.Int)}}, fallback
	case SrcMax:
		sub, fb := in.avail(x.Src, asset)
		m := in.eval(x.Max).(VMonetary)
		if m.Amount.Sign() < 0 {
			panic(stop{class: Rejected, reason: "negative max", any: true})
		}
		taken, rest := takeFront(sub, m.Amount)
		in.repay(rest, asset)
		if fb != "" {
			missing := new(big.Int).Sub(m.Amount, total(taken))
			if fb != "world" {
				in.setb(fb, asset, new(big.Int).Sub(in.b(fb, asset), missing))
			}
			taken = append(taken, part{fb, missing})
		}
		return taken, ""
	case SrcInOrder:
		for _, sub := range x.Srcs {
			p, fb := in.avail(sub, asset)
			ps = append(ps, p...)
			fallback = fb
		}
		return ps, fallback
	}
	panic("numgen: bad source")
}

// takeExact takes n out of a source: exactly n or insufficient funds; with a
// fallback account the shortfall comes from it.
func (in *interp) takeFrom(s Source, asset string, n *big.Int) []part {
	ps, fb := in.avail(s, asset)
	if n.Sign() < 0 {
		panic(stop{class: Rejected, reason: "negative amount", any: true})
	}
	taken, rest := takeFront(ps, n)
	got := total(taken)
	if fb == "" {
		if got.Cmp(n) < 0 {
			in.fail(Insufficient, "source gives %v of %v %s", got, n, asset)
		}
		in.repay(rest, asset)
		return taken
	}
	in.repay(rest, asset)
	missing := new(big.Int).Sub(n, got)
	if fb != "world" {
		in.setb(fb, asset, new(big.Int).Sub(in.b(fb, asset), missing))
	}
	return append(taken, part{fb, missing})
}

// leaf is a non-kept destination account with the amount it must receive.
type leaf struct {
	acc string
	amt *big.Int
}

func (in *interp) kdLeaves(k KeptOrDest, amt *big.Int, asset string, out *[]leaf) (kept *big.Int) {
	if k.Kept {
		return new(big.Int).Set(amt)
	}
	return in.destLeaves(k.Dest, amt, asset, out)
}

// destLeaves fixes the amount of every leaf; returns how much of amt is kept.
func (in *interp) destLeaves(d Dest, amt *big.Int, asset string, out *[]leaf) (kept *big.Int) {
	kept = new(big.Int)
	switch x := d.(type) {
	case DestAccount:
		*out = append(*out, leaf{string(in.eval(x.Acc).(VAccount)), new(big.Int).Set(amt)})
	case DestAllotment:
		shares := Allocate(amt, in.portions(x.Portions))
		for i, k := range x.KDs {
			kept.Add(kept, in.kdLeaves(k, shares[i], asset, out))
		}
	case DestInOrder:
		rest := new(big.Int).Set(amt)
		reserve := new(big.Int) // kept so far inside this ordered destination
		for _, c := range x.Clauses {
			m := in.eval(c.Max).(VMonetary)
			if m.Asset != asset {
				in.fail(Rejected, "max in %s on a %s send", m.Asset, asset)
			}
			if m.Amount.Sign() < 0 {
				panic(stop{class: Rejected, reason: "negative max", any: true})
			}
			a := new(big.Int).Set(m.Amount)
			if a.Cmp(rest) > 0 {
				a.Set(rest)
				if reserve.Sign() > 0 {
					// this clause must not eat what earlier clauses marked as kept
					in.res.KeptReserve = true
				}
			}
			k := in.kdLeaves(c.KD, a, asset, out)
			kept.Add(kept, k)
			reserve.Add(reserve, k)
			rest.Sub(rest, a)
		}
		kept.Add(kept, in.kdLeaves(x.Remaining, rest, asset, out))
	}
	return kept
}

func (in *interp) send(s Send) {
	var asset string
	var funding []part
	if s.Amount != nil {
		m := in.eval(s.Amount).(VMonetary)
		asset = m.Asset
		if al, ok := s.Src.(SrcAllotment); ok {
			if m.Amount.Sign() < 0 {
				panic(stop{class: Rejected, reason: "negative amount", any: true})
			}
			shares := Allocate(m.Amount, in.portions(al.Portions))
			for i, sub := range al.Srcs {
				funding = append(funding, in.takeFrom(sub, asset, shares[i])...)
			}
		} else {
			funding = in.takeFrom(s.Src, asset, m.Amount)
		}
	} else {
		asset = string(in.eval(s.AllAsset).(VAsset))
		funding, _ = in.avail(s.Src, asset)
	}
	t := total(funding)
	in.tot = t
	var leaves []leaf
	in.destLeaves(s.Dest, t, asset, &leaves)
	rest := funding
	for _, lf := range leaves {
		var taken []part
		taken, rest = takeFront(rest, lf.amt)
		if lf.amt.Sign() == 0 && len(rest) > 0 {
			taken = []part{{rest[0].acc, new(big.Int)}}
		}
		for _, p := range taken {
			in.cur = append(in.cur, Posting{p.acc, lf.acc, asset, new(big.Int).Set(p.amt)})
			if lf.acc != "world" {
				in.setb(lf.acc, asset, new(big.Int).Add(in.b(lf.acc, asset), p.amt))
			}
		}
	}
	in.repay(rest, asset) // what is kept goes back where it came from
}

// Run interprets the program. It never consults the implementation.
func Run(prog *Program, env *Env) (res *Result) {
	in := &interp{env: env, vars: map[string]Value{}, bal: map[string]map[string]*big.Int{}}
	res = &Result{TxMeta: map[string]string{}, AccountMeta: map[string]map[string]string{}, Grants: map[string]*big.Int{}, Unbounded: map[string]bool{}}
	in.res = res
	defer func() {
		if p := recover(); p != nil {
			st, ok := p.(stop)
			if !ok {
				panic(p)
			}
			res.Class, res.Reason, res.AnyErrorOK = st.class, st.reason, st.any
			res.Groups = nil
		}
	}()
	// supplied variables first (the API validates the variable map before anything else) ...
	used := map[string]bool{}
	for _, v := range prog.Vars {
		if v.Origin != nil {
			continue
		}
		s, ok := env.Vars[v.Name]
		if !ok {
			in.fail(InvalidVars, "missing variable $%s", v.Name)
		}
		val, ok := parseBound(v.Type, s)
		if !ok {
			in.fail(InvalidVars, "invalid value %q for %s $%s", s, v.Type, v.Name)
		}
		in.vars[v.Name] = val
		used[v.Name] = true
	}
	for name := range env.Vars {
		if !used[name] {
			in.fail(InvalidVars, "extraneous variable $%s", name)
		}
	}
	// ... then looked-up ones, in declaration order
	for _, v := range prog.Vars {
		switch o := v.Origin.(type) {
		case MetaOrigin:
			acc := string(in.eval(o.Acc).(VAccount))
			s, ok := env.Meta[acc][o.Key]
			if !ok {
				in.fail(Rejected, "missing metadata %s on %s", o.Key, acc)
			}
			val, ok := parseBound(v.Type, s)
			if !ok {
				in.fail(Rejected, "metadata %q is not a %s", s, v.Type)
			}
			in.vars[v.Name] = val
		case BalanceOrigin:
			acc := string(in.eval(o.Acc).(VAccount))
			asset := string(in.eval(o.Asset).(VAsset))
			b := env.Balance(acc, asset)
			if b.Sign() < 0 {
				in.fail(Rejected, "balance of %s is negative", acc)
			}
			in.vars[v.Name] = VMonetary{asset, b}
		}
	}
	for _, st := range prog.Stmts {
		in.cur, in.tot = nil, nil
		switch x := st.(type) {
		case Send:
			in.send(x)
		case SetTxMeta:
			res.TxMeta[x.Key] = RenderValue(in.eval(x.Value))
		case SetAccountMeta:
			acc := string(in.eval(x.Acc).(VAccount))
			if res.AccountMeta[acc] == nil {
				res.AccountMeta[acc] = map[string]string{}
			}
			res.AccountMeta[acc][x.Key] = RenderValue(in.eval(x.Value))
		case Save:
			acc := string(in.eval(x.Acc).(VAccount))
			if x.Amount != nil {
				m := in.eval(x.Amount).(VMonetary)
				if m.Amount.Sign() < 0 {
					in.fail(Rejected, "negative amount to save")
				}
				in.setb(acc, m.Asset, new(big.Int).Sub(in.b(acc, m.Asset), m.Amount))
			} else {
				asset := string(in.eval(x.AllAsset).(VAsset))
				if in.b(acc, asset).Sign() > 0 {
					in.setb(acc, asset, new(big.Int))
				}
			}
		case Print:
			in.eval(x.E)
		case Fail:
			in.fail(Rejected, "fail statement")
		}
		res.Groups = append(res.Groups, in.cur)
		res.Totals = append(res.Totals, in.tot)
	}
	for k, v := range env.ReqMeta {
		if _, clash := res.TxMeta[k]; clash {
			in.fail(Rejected, "metadata override %s", k)
		}
		res.TxMeta[k] = v
	}
	res.Class = OK
	res.Balances = in.bal
	return res
}

// SortedAccounts lists the accounts of a balance table.
func SortedAccounts(m map[string]map[string]*big.Int) []string {
	out := make([]string, 0, len(m))
	for k := range m {
		out = append(out, k)
	}
	sort.Strings(out)
	return out
}

// ---------------------------------------------------------------------------
// helpers for the validity-predicate checks (C01, C03)

// Static evaluates expressions of a program under resolved variables.
type Static struct{ in *interp }

// Resolve binds the variables of prog; ok=false when the bindings are not acceptable.
func Resolve(prog *Program, env *Env) (st *Static, ok bool) {
	if r := Run(&Program{Vars: prog.Vars}, &Env{Vars: env.Vars, Balances: env.Balances, Meta: env.Meta}); r.Class != OK {
		return nil, false
	}
	in := bindOnly(prog, env)
	if in == nil {
		return nil, false
	}
	return &Static{in: in}, true
}

func bindOnly(prog *Program, env *Env) (in *interp) {
	in = &interp{env: env, vars: map[string]Value{}, bal: map[string]map[string]*big.Int{}}
	in.res = &Result{TxMeta: map[string]string{}, AccountMeta: map[string]map[string]string{}, Grants: map[string]*big.Int{}, Unbounded: map[string]bool{}}
	defer func() {
		if p := recover(); p != nil {
			in = nil
		}
	}()
	for _, v := range prog.Vars {
		switch o := v.Origin.(type) {
		case nil:
			val, ok := parseBound(v.Type, env.Vars[v.Name])
			if !ok {
				return nil
			}
			in.vars[v.Name] = val
		case MetaOrigin:
			acc := string(in.eval(o.Acc).(VAccount))
			val, ok := parseBound(v.Type, env.Meta[acc][o.Key])
			if !ok {
				return nil
			}
			in.vars[v.Name] = val
		case BalanceOrigin:
			acc := string(in.eval(o.Acc).(VAccount))
			asset := string(in.eval(o.Asset).(VAsset))
			in.vars[v.Name] = VMonetary{asset, env.Balance(acc, asset)}
		}
	}
	return in
}

// Eval evaluates an expression (panics of the evaluator are reported as ok=false).
func (s *Static) Eval(e Expr) (v Value, ok bool) {
	defer func() {
		if p := recover(); p != nil {
			v, ok = nil, false
		}
	}()
	return s.in.eval(e), true
}

// Leaf is a non-kept destination leaf and the amount it must receive.
type Leaf struct {
	Account string
	Amount  *big.Int
}

// Leaves computes, for a destination and the total it is handed, the amount of
// every non-kept leaf in written order, and the total kept.
func (s *Static) Leaves(d Dest, total *big.Int, asset string) (leaves []Leaf, kept *big.Int, ok bool) {
	defer func() {
		if p := recover(); p != nil {
			leaves, kept, ok = nil, nil, false
		}
	}()
	var ls []leaf
	k := s.in.destLeaves(d, total, asset, &ls)
	for _, l := range ls {
		leaves = append(leaves, Leaf{l.acc, l.amt})
	}
	return leaves, k, true
}

// SourceAccounts lists the accounts a source names (resolved), in order.
func (s *Static) SourceAccounts(src Source) []string {
	var out []string
	var walk func(Source)
	walk = func(x Source) {
		switch y := x.(type) {
		case SrcAccount:
			if v, ok := s.Eval(y.Acc); ok {
				out = append(out, string(v.(VAccount)))
			}
		case SrcMax:
			walk(y.Src)
		case SrcInOrder:
			for _, z := range y.Srcs {
				walk(z)
			}
		case SrcAllotment:
			for _, z := range y.Srcs {
				walk(z)
			}
		}
	}
	walk(src)
	return out
}

// GrantsOf returns, per "account/asset", the largest overdraft any clause of the
// program grants (nil amount in unbounded).
func (s *Static) GrantsOf(prog *Program) (grants map[string]*big.Int, unbounded map[string]bool) {
	grants, unbounded = map[string]*big.Int{}, map[string]bool{}
	for _, st := range prog.Stmts {
		sd, ok := st.(Send)
		if !ok {
			continue
		}
		var asset string
		if sd.Amount != nil {
			v, ok := s.Eval(sd.Amount)
			if !ok {
				continue
			}
			asset = v.(VMonetary).Asset
		} else {
			v, ok := s.Eval(sd.AllAsset)
			if !ok {
				continue
			}
			asset = string(v.(VAsset))
		}
		var walk func(Source)
		walk = func(x Source) {
			switch y := x.(type) {
			case SrcAccount:
				if y.Overdraft == nil {
					return
				}
				av, ok := s.Eval(y.Acc)
				if !ok {
					return
				}
				k := string(av.(VAccount)) + "/" + asset
				if y.Overdraft.Unbounded {
					unbounded[k] = true
					return
				}
				if mv, ok := s.Eval(y.Overdraft.Amount); ok {
					// (the grant is in the asset the bound is written in)
					k := string(av.(VAccount)) + "/" + mv.(VMonetary).Asset
					amt := mv.(VMonetary).Amount
					if g, ok := grants[k]; !ok || amt.Cmp(g) > 0 {
						grants[k] = amt
					}
				}
			case SrcMax:
				walk(y.Src)
			case SrcInOrder:
				for _, z := range y.Srcs {
					walk(z)
				}
			case SrcAllotment:
				for _, z := range y.Srcs {
					walk(z)
				}
			}
		}
		walk(sd.Src)
	}
	return grants, unbounded
}
