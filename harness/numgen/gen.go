package numgen

import (
	"fmt"
	"math/big"
	"strings"

	"pgregory.net/rapid"
)

// GenCfg bounds the typed generator.
type GenCfg struct {
	MaxDepth   int  // nesting depth of sources / destinations
	MaxStmts   int  // statements per program
	OnlySends  bool // no save / metadata / print statements
	SingleSend bool
	NoReqMeta  bool
	// AvoidKeptReserve keeps `kept` out of the non-final clauses of ordered destinations
	// (the shape of a listed known finding); Excluded counts how often that mattered.
	AvoidKeptReserve bool
	// Coverable biases amounts towards what the sources can provide.
	Coverable bool
}

// Case is a generated program with the environment it runs in.
type Case struct {
	Excluded int
	Prog     *Program
	Env      *Env
	Text     string
	Layout   Layout
	Labels   []string
}

var (
	accPool   = []string{"a", "b", "c", "users:001", "x-y:z_1"}
	assetPool = []string{"USD", "EUR/2", "COIN"}
)

func pow(b, e int64) *big.Int { return new(big.Int).Exp(big.NewInt(b), big.NewInt(e), nil) }

type gctx struct {
	t      *rapid.T
	cfg    GenCfg
	env    *Env
	prog   *Program
	labels map[string]bool
	// declared variables by type
	accVars, assetVars, numVars, monVars, porVars, strVars []string
	monVarAsset                                            map[string]string
	accVarValue                                            map[string]string
	nvar                                                   int
	noKept                                                 int
	savedAcc, savedAsset                                   string
	excluded                                               int
}

func (g *gctx) label(l string) { g.labels[l] = true }

func (g *gctx) declare(ty Type, value string, origin Origin) string {
	g.nvar++
	name := fmt.Sprintf("%s%d", map[Type]string{TAccount: "acc", TAsset: "ast", TNumber: "n", TString: "s", TMonetary: "m", TPortion: "p"}[ty], g.nvar)
	g.prog.Vars = append(g.prog.Vars, VarDecl{Type: ty, Name: name, Origin: origin})
	if origin == nil {
		g.env.Vars[name] = value
	}
	return name
}

func (g *gctx) balanceValue() *big.Int {
	switch rapid.IntRange(0, 9).Draw(g.t, "balClass") {
	case 0:
		return big.NewInt(0)
	case 1:
		return big.NewInt(int64(-rapid.IntRange(1, 100).Draw(g.t, "neg")))
	case 2:
		return new(big.Int).Add(pow(2, 64), big.NewInt(int64(rapid.IntRange(0, 50).Draw(g.t, "huge"))))
	case 3:
		return pow(10, 30)
	default:
		return big.NewInt(int64(rapid.IntRange(1, 200).Draw(g.t, "small")))
	}
}

// ---- expressions

func (g *gctx) assetExpr(asset string) Expr {
	for _, v := range g.assetVars {
		if g.env.Vars[v] == asset && rapid.IntRange(0, 2).Draw(g.t, "assetVar") == 0 {
			g.label("asset-via-variable")
			return VarRef{v}
		}
	}
	return LitAsset{asset}
}

// monExpr builds an expression of type monetary with the given asset and value (value >= 0).
func (g *gctx) monExpr(asset string, v *big.Int) Expr {
	for _, mv := range g.monVars {
		if g.monVarAsset[mv] == asset && g.env.Vars[mv] == asset+" "+v.String() {
			return VarRef{mv}
		}
	}
	switch rapid.IntRange(0, 7).Draw(g.t, "monShape") {
	case 0: // a + b
		if v.Sign() > 0 {
			a := new(big.Int).Quo(v, big.NewInt(2))
			b := new(big.Int).Sub(v, a)
			g.label("monetary-arith")
			return BinOp{'+', LitMonetary{g.assetExpr(asset), a, g.pad()}, LitMonetary{g.assetExpr(asset), b, 0}}
		}
	case 1: // (v+k) - k
		k := big.NewInt(int64(rapid.IntRange(1, 50).Draw(g.t, "k")))
		g.label("monetary-arith")
		return BinOp{'-', LitMonetary{g.assetExpr(asset), new(big.Int).Add(v, k), 0}, LitMonetary{g.assetExpr(asset), k, g.pad()}}
	case 2: // bound variable
		if len(g.prog.Vars) < 12 {
			name := g.declare(TMonetary, asset+" "+v.String(), nil)
			g.monVars = append(g.monVars, name)
			g.monVarAsset[name] = asset
			g.label("monetary-variable")
			return VarRef{name}
		}
	}
	return LitMonetary{g.assetExpr(asset), new(big.Int).Set(v), g.pad()}
}

func (g *gctx) accountExpr(acc string) Expr {
	for _, v := range g.accVars {
		if g.accVarValue[v] == acc && rapid.IntRange(0, 1).Draw(g.t, "useAccVar") == 0 {
			g.label("account-via-variable")
			return VarRef{v}
		}
	}
	return LitAccount{acc}
}

func accKey(e Expr) string {
	switch x := e.(type) {
	case LitAccount:
		return "lit:" + x.Name
	case VarRef:
		return "var:" + x.Name
	}
	return "?"
}

// ---- sources

type srcInfo struct {
	emptied   map[string]bool // resource keys emptied (for the static rule)
	unbounded bool
	capacity  *big.Int // rough capacity under the initial balances (nil = unlimited)
}

func (g *gctx) capOf(acc, asset string, od *big.Int) *big.Int {
	c := new(big.Int).Add(g.env.Balance(acc, asset), od)
	if c.Sign() < 0 {
		return new(big.Int)
	}
	return c
}

func (g *gctx) source(depth int, asset string, isAll bool, forbidden map[string]bool, mayUnbounded bool) (Source, srcInfo) {
	kind := "account"
	if depth < g.cfg.MaxDepth {
		kind = rapid.SampledFrom([]string{"account", "account", "account", "max", "inorder", "inorder"}).Draw(g.t, "srcKind")
	}
	switch kind {
	case "max":
		sub, info := g.source(depth+1, asset, false, map[string]bool{}, true)
		var m *big.Int
		switch rapid.IntRange(0, 3).Draw(g.t, "maxClass") {
		case 0:
			m = big.NewInt(0)
		case 1:
			if info.capacity != nil {
				m = new(big.Int).Set(info.capacity)
			} else {
				m = big.NewInt(int64(rapid.IntRange(1, 100).Draw(g.t, "max")))
			}
		default:
			m = big.NewInt(int64(rapid.IntRange(1, 150).Draw(g.t, "max")))
		}
		g.label("src:max")
		cp := new(big.Int).Set(m)
		if info.capacity != nil && info.capacity.Cmp(cp) < 0 {
			cp = new(big.Int).Set(info.capacity)
		}
		return SrcMax{Max: g.monExpr(asset, m), Src: sub}, srcInfo{emptied: map[string]bool{}, capacity: cp}
	case "inorder":
		n := rapid.IntRange(2, 3).Draw(g.t, "nSrc")
		var subs []Source
		emptied := map[string]bool{}
		total := new(big.Int)
		unb := false
		for i := 0; i < n; i++ {
			fb := map[string]bool{}
			for k := range forbidden {
				fb[k] = true
			}
			for k := range emptied {
				fb[k] = true
			}
			sub, info := g.source(depth+1, asset, isAll, fb, mayUnbounded && i == n-1)
			subs = append(subs, sub)
			for k := range info.emptied {
				emptied[k] = true
			}
			if info.capacity == nil {
				unb = true
			} else {
				total.Add(total, info.capacity)
			}
			if info.unbounded {
				unb = true
			}
		}
		// an account first drawn on under a cap may come back later in the list without one: what it gives
		// beyond the cap then comes after everything in between
		if !unb && rapid.Bool().Draw(g.t, "comeBack") {
			for _, sub := range subs[:len(subs)-1] {
				mx, ok := sub.(SrcMax)
				if !ok {
					continue
				}
				inner, ok := mx.Src.(SrcAccount)
				if !ok || inner.Overdraft != nil || forbidden[accKey(inner.Acc)] || emptied[accKey(inner.Acc)] {
					continue
				}
				if lit, isLit := inner.Acc.(LitAccount); isLit && lit.Name == "world" {
					continue
				}
				subs = append(subs, SrcAccount{Acc: inner.Acc})
				emptied[accKey(inner.Acc)] = true
				g.label("src:capped-then-plain")
				break
			}
		}
		g.label(fmt.Sprintf("src:inorder@%d", depth))
		si := srcInfo{emptied: emptied, unbounded: unb, capacity: total}
		if unb {
			si.capacity = nil
		}
		return SrcInOrder{Srcs: subs}, si
	}
	return g.sourceAccount(asset, isAll, forbidden, mayUnbounded)
}

func (g *gctx) sourceAccount(asset string, isAll bool, forbidden map[string]bool, mayUnbounded bool) (Source, srcInfo) {
	// world?
	if mayUnbounded && !isAll && rapid.IntRange(0, 4).Draw(g.t, "world") == 0 && !forbidden["lit:world"] {
		g.label("src:world")
		return SrcAccount{Acc: LitAccount{"world"}}, srcInfo{emptied: map[string]bool{"lit:world": true}, unbounded: true}
	}
	var e Expr
	var acc string
	for tries := 0; ; tries++ {
		acc = rapid.SampledFrom(accPool).Draw(g.t, "srcAcc")
		e = g.accountExpr(acc)
		if !forbidden[accKey(e)] {
			break
		}
		if tries > 8 {
			// a fresh variable is a fresh resource
			name := g.declare(TAccount, acc, nil)
			g.accVars = append(g.accVars, name)
			g.accVarValue[name] = acc
			e = VarRef{name}
			break
		}
	}
	if _, isVar := e.(VarRef); isVar {
		g.label("src:aliased-variable")
	}
	s := SrcAccount{Acc: e}
	info := srcInfo{emptied: map[string]bool{accKey(e): true}}
	od := new(big.Int)
	switch rapid.IntRange(0, 5).Draw(g.t, "overdraft") {
	case 0:
		k := big.NewInt(int64(rapid.SampledFrom([]int{0, 1, 10, 50, 100}).Draw(g.t, "grant")))
		odAsset := asset
		if rapid.IntRange(0, 9).Draw(g.t, "overdraftOtherAsset") == 0 {
			// the bound is written in another asset than the send's: the statement contradicts itself and must be refused
			for _, a := range assetPool {
				if a != asset {
					odAsset = a
					break
				}
			}
			g.label("overdraft:other-asset")
		}
		s.Overdraft = &Overdraft{Amount: g.monExpr(odAsset, k)}
		od = k
		g.label("overdraft:specific")
	case 1:
		if mayUnbounded && !isAll {
			s.Overdraft = &Overdraft{Unbounded: true}
			info.unbounded = true
			g.label("overdraft:unbounded")
		}
	}
	if !info.unbounded {
		info.capacity = g.capOf(acc, asset, od)
	}
	return s, info
}

// ---- portions

// portionSet draws k portions that satisfy the static rules.
func (g *gctx) portionSet(k int) []Portion {
	weights := make([]int64, k)
	var sum int64
	for i := range weights {
		weights[i] = int64(rapid.IntRange(0, 7).Draw(g.t, "w"))
		if i == 0 && weights[i] == 0 {
			weights[i] = 1
		}
		sum += weights[i]
	}
	denom := sum
	style := rapid.SampledFrom([]string{"exact", "exact", "remaining", "remaining", "variable", "percent"}).Draw(g.t, "portionStyle")
	out := make([]Portion, k)
	frac := func(w int64) string {
		if rapid.Bool().Draw(g.t, "spaced") {
			return fmt.Sprintf("%d / %d", w, denom)
		}
		return fmt.Sprintf("%d/%d", w, denom)
	}
	switch style {
	case "percent":
		// percentages that add up to exactly 100
		// (decimals that begin with a zero, trailing zeros, many digits: the text is a decimal fraction of 100)
		sets := map[int][][]string{
			2: {{"99.99%", "0.01%"}, {"97.95%", "2.05%"}, {"89.95%", "10.05%"}, {"99.995%", "0.005%"}, {"50.0%", "50.00%"}, {"0.05%", "99.95%"}},
			3: {{"12.5%", "37.5%", "50%"}, {"2.05%", "7.95%", "90%"}, {"1.005%", "0.995%", "98%"}, {"33.3%", "33.3%", "33.4%"}, {"0.0625%", "49.9375%", "50%"}},
			4: {{"10%", "20%", "30%", "40%"}, {"0.05%", "0.95%", "9%", "90%"}, {"25.0%", "25.00%", "24.05%", "25.95%"}},
		}
		var pcts []string
		if alts := sets[k]; alts != nil {
			pcts = alts[rapid.IntRange(0, len(alts)-1).Draw(g.t, "pctSet")]
		}
		if pcts != nil {
			for i := range out {
				out[i] = Portion{Kind: PConst, Text: pcts[i]}
			}
			g.label("portions:percent")
			return out
		}
		fallthrough
	case "exact":
		for i := range out {
			out[i] = Portion{Kind: PConst, Text: frac(weights[i])}
		}
		g.label("portions:exact")
	case "remaining":
		ri := rapid.IntRange(0, k-1).Draw(g.t, "remIdx")
		if weights[ri] == 0 || weights[ri] == denom {
			// known portions would already be 100% (or remaining would be everything but zero consts): keep it legal
			weights[ri] = 1
			denom++
		}
		for i := range out {
			out[i] = Portion{Kind: PConst, Text: frac(weights[i])}
		}
		if rapid.IntRange(0, 2).Draw(g.t, "pctWithRemaining") == 0 {
			// small percentages, some with decimals that begin with a zero; what is left goes to `remaining`
			for i := range out {
				out[i] = Portion{Kind: PConst, Text: rapid.SampledFrom([]string{"2.05%", "0.05%", "10.05%", "1.005%", "12.50%", "0.5%", "7%", "0.001%"}).Draw(g.t, "smallPct")}
			}
			g.label("portions:percent")
		}
		out[ri] = Portion{Kind: PRemaining}
		g.label("portions:remaining")
	case "variable":
		if k < 2 {
			out[0] = Portion{Kind: PConst, Text: "1/1"}
			return out
		}
		vi := rapid.IntRange(0, k-1).Draw(g.t, "varIdx")
		ri := (vi + 1) % k
		if weights[ri] == 0 {
			weights[ri] = 1
			denom++
		}
		for i := range out {
			out[i] = Portion{Kind: PConst, Text: frac(weights[i])}
		}
		name := g.declare(TPortion, frac(weights[vi]), nil)
		g.porVars = append(g.porVars, name)
		out[vi] = Portion{Kind: PVar, Text: name}
		out[ri] = Portion{Kind: PRemaining}
		g.label("portions:variable")
	}
	return out
}

// pad draws the number of leading zeros an amount is written with (mostly none): "0100" is one hundred.
func (g *gctx) pad() int {
	if rapid.IntRange(0, 7).Draw(g.t, "padded") != 0 {
		return 0
	}
	g.label("leading-zeros")
	return rapid.IntRange(1, 3).Draw(g.t, "pad")
}

// ---- destinations

func (g *gctx) destAccount() Expr {
	if rapid.IntRange(0, 7).Draw(g.t, "destWorld") == 0 {
		return LitAccount{"world"}
	}
	if g.savedAcc != "" && rapid.IntRange(0, 2).Draw(g.t, "destSaved") == 0 {
		g.label("revisit-saved-account")
		return g.accountExpr(g.savedAcc)
	}
	return g.accountExpr(rapid.SampledFrom(append([]string{"d1", "d2"}, accPool...)).Draw(g.t, "dstAcc"))
}

func (g *gctx) kd(depth int, asset string, hint *big.Int) KeptOrDest {
	if rapid.IntRange(0, 4).Draw(g.t, "kept") == 0 {
		if g.noKept > 0 {
			g.excluded++
		} else {
			g.label("dest:kept")
			return KeptOrDest{Kept: true}
		}
	}
	return KeptOrDest{Dest: g.dest(depth, asset, hint)}
}

func (g *gctx) dest(depth int, asset string, hint *big.Int) Dest {
	kind := "account"
	if depth < g.cfg.MaxDepth {
		kind = rapid.SampledFrom([]string{"account", "account", "inorder", "allot", "allot"}).Draw(g.t, "dstKind")
	}
	switch kind {
	case "inorder":
		n := rapid.IntRange(1, 3).Draw(g.t, "nClauses")
		d := DestInOrder{}
		for i := 0; i < n; i++ {
			var m *big.Int
			switch rapid.IntRange(0, 3).Draw(g.t, "dmaxClass") {
			case 0:
				m = big.NewInt(0)
			case 1:
				m = new(big.Int).Set(hint)
			default:
				m = big.NewInt(int64(rapid.IntRange(1, 120).Draw(g.t, "dmax")))
			}
			if g.cfg.AvoidKeptReserve {
				g.noKept++
			}
			d.Clauses = append(d.Clauses, DestClause{Max: g.monExpr(asset, m), KD: g.kd(depth+1, asset, m)})
			if g.cfg.AvoidKeptReserve {
				g.noKept--
			}
		}
		d.Remaining = g.kd(depth+1, asset, hint)
		g.label(fmt.Sprintf("dest:inorder@%d", depth))
		return d
	case "allot":
		k := rapid.IntRange(2, 4).Draw(g.t, "nPortions")
		d := DestAllotment{Portions: g.portionSet(k)}
		for i := 0; i < k; i++ {
			d.KDs = append(d.KDs, g.kd(depth+1, asset, hint))
		}
		g.label(fmt.Sprintf("dest:allot@%d", depth))
		return d
	}
	return DestAccount{Acc: g.destAccount()}
}

// ---- statements

func (g *gctx) send() Send {
	asset := rapid.SampledFrom(assetPool).Draw(g.t, "sendAsset")
	if g.savedAsset != "" && rapid.Bool().Draw(g.t, "sendSavedAsset") {
		asset = g.savedAsset
	}
	isAll := rapid.IntRange(0, 6).Draw(g.t, "sendAll") == 0
	s := Send{DestFirst: rapid.IntRange(0, 3).Draw(g.t, "destFirst") == 0}
	var info srcInfo
	if !isAll && g.cfg.MaxDepth > 0 && rapid.IntRange(0, 5).Draw(g.t, "srcAllot") == 0 {
		k := rapid.IntRange(2, 3).Draw(g.t, "nSrcPortions")
		al := SrcAllotment{Portions: g.portionSet(k)}
		total := new(big.Int)
		unb := false
		for i := 0; i < k; i++ {
			sub, si := g.source(1, asset, false, map[string]bool{}, true)
			al.Srcs = append(al.Srcs, sub)
			if si.capacity == nil {
				unb = true
			} else {
				total.Add(total, si.capacity)
			}
		}
		s.Src = al
		info = srcInfo{capacity: total}
		if unb {
			info.capacity = nil
		}
		g.label("src:allotment")
	} else {
		s.Src, info = g.source(0, asset, isAll, map[string]bool{}, true)
	}
	capacity := info.capacity
	var amount *big.Int
	if isAll {
		s.AllAsset = g.assetExpr(asset)
		g.label("send:all")
		amount = capacity
		if amount == nil {
			amount = big.NewInt(100)
		}
	} else {
		classes := []string{"zero", "one", "small", "small", "cap-1", "cap", "cap", "cap+1", "cap+2", "2^63-1", "2^64", "10^30", "negative"}
		if g.cfg.Coverable {
			classes = []string{"zero", "one", "half", "half", "cap-1", "cap", "cap", "cap", "cap+1", "2^64"}
		}
		class := rapid.SampledFrom(classes).Draw(g.t, "amountClass")
		base := capacity
		if base == nil {
			base = big.NewInt(int64(rapid.IntRange(1, 300).Draw(g.t, "base")))
		}
		switch class {
		case "zero":
			amount = big.NewInt(0)
		case "one":
			amount = big.NewInt(1)
		case "small":
			amount = big.NewInt(int64(rapid.IntRange(2, 300).Draw(g.t, "amt")))
		case "half":
			amount = new(big.Int).Quo(base, big.NewInt(int64(rapid.IntRange(2, 7).Draw(g.t, "div"))))
		case "cap-1":
			amount = new(big.Int).Sub(base, big.NewInt(1))
		case "cap":
			amount = new(big.Int).Set(base)
		case "cap+1":
			amount = new(big.Int).Add(base, big.NewInt(1))
		case "cap+2":
			amount = new(big.Int).Add(base, big.NewInt(2))
		case "2^63-1":
			amount = new(big.Int).Sub(pow(2, 63), big.NewInt(1))
		case "2^64":
			amount = pow(2, 64)
		case "10^30":
			amount = pow(10, 30)
		case "negative":
			amount = nil
		}
		if amount != nil && amount.Sign() < 0 {
			amount = big.NewInt(0)
		}
		g.label("amount:" + class)
		if amount == nil {
			// a negative result of arithmetic
			k := big.NewInt(int64(rapid.IntRange(1, 20).Draw(g.t, "negBy")))
			s.Amount = BinOp{'-', LitMonetary{g.assetExpr(asset), big.NewInt(3), 0}, LitMonetary{g.assetExpr(asset), new(big.Int).Add(big.NewInt(3), k), 0}}
			amount = big.NewInt(0)
		} else if rapid.IntRange(0, 9).Draw(g.t, "balanceAmount") == 0 {
			// amount = balance(@x, ASSET)
			acc := rapid.SampledFrom(accPool).Draw(g.t, "balAcc")
			name := g.declare(TMonetary, "", BalanceOrigin{Acc: g.accountExpr(acc), Asset: g.assetExpr(asset)})
			s.Amount = VarRef{name}
			amount = g.env.Balance(acc, asset)
			g.label("amount:balance()")
		} else {
			s.Amount = g.monExpr(asset, amount)
		}
	}
	if amount.Sign() < 0 {
		amount = new(big.Int)
	}
	s.Dest = g.dest(0, asset, amount)
	return s
}

func (g *gctx) anyValueExpr() Expr {
	switch rapid.IntRange(0, 7).Draw(g.t, "valueKind") {
	case 0:
		return LitAccount{rapid.SampledFrom(accPool).Draw(g.t, "vAcc")}
	case 1:
		return LitAsset{rapid.SampledFrom(assetPool).Draw(g.t, "vAsset")}
	case 2:
		n := new(big.Int).Add(pow(2, 64), big.NewInt(int64(rapid.IntRange(0, 9).Draw(g.t, "vn"))))
		if rapid.Bool().Draw(g.t, "arith") {
			g.label("number-arith")
			return BinOp{'-', BinOp{'+', LitNumber{n, 0}, LitNumber{big.NewInt(7), g.pad()}}, LitNumber{big.NewInt(int64(rapid.IntRange(0, 20).Draw(g.t, "vk"))), 0}}
		}
		return LitNumber{big.NewInt(int64(rapid.IntRange(0, 1000).Draw(g.t, "vsmall"))), g.pad()}
	case 3:
		if rapid.IntRange(0, 2).Draw(g.t, "lookAlike") == 0 {
			// a string spelled like something of another kind the program names: an account, an asset, a small number, a portion
			// (string literals of the language take letters, digits, blanks, _ and - only)
			return LitString{rapid.SampledFrom([]string{"0", "1", "2", "3", "world", "a", "b", "c", "USD", "COIN", "100"}).Draw(g.t, "vLookAlike")}
		}
		return LitString{rapid.StringMatching(`[a-zA-Z0-9_\- ]{0,12}`).Draw(g.t, "vStr")}
	case 4:
		return LitPortion{rapid.SampledFrom([]string{"1/3", "2/6", "12.5%", "100%", "0%", "7/8", "50/100"}).Draw(g.t, "vPortion")}
	case 5:
		return g.monExpr(rapid.SampledFrom(assetPool).Draw(g.t, "vmAsset"), big.NewInt(int64(rapid.IntRange(0, 500).Draw(g.t, "vmAmt"))))
	case 6:
		// variable looked up from metadata
		acc := rapid.SampledFrom(accPool).Draw(g.t, "metaAcc")
		ty := rapid.SampledFrom([]Type{TAccount, TAsset, TNumber, TString, TMonetary, TPortion}).Draw(g.t, "metaTy")
		val := map[Type]string{TAccount: "looked:up", TAsset: "COIN", TNumber: "18446744073709551617", TString: "hello world", TMonetary: "USD 77", TPortion: "3/9"}[ty]
		key := fmt.Sprintf("k%d", g.nvar)
		if g.env.Meta[acc] == nil {
			g.env.Meta[acc] = map[string]string{}
		}
		g.env.Meta[acc][key] = val
		name := g.declare(ty, "", MetaOrigin{Acc: LitAccount{acc}, Key: key})
		g.label("var:meta()")
		return VarRef{name}
	default:
		name := g.declare(TString, rapid.StringMatching(`[a-z ]{0,8}`).Draw(g.t, "sv"), nil)
		return VarRef{name}
	}
}

func (g *gctx) otherStmt() Stmt {
	switch rapid.IntRange(0, 3).Draw(g.t, "stmtKind") {
	case 0:
		g.label("stmt:set_tx_meta")
		return SetTxMeta{Key: rapid.SampledFrom([]string{"k1", "k2", "a-b c", ""}).Draw(g.t, "mk"), Value: g.anyValueExpr()}
	case 1:
		g.label("stmt:set_account_meta")
		return SetAccountMeta{Acc: g.accountExpr(rapid.SampledFrom(accPool).Draw(g.t, "mAcc")), Key: rapid.SampledFrom([]string{"k1", "k2"}).Draw(g.t, "mk"), Value: g.anyValueExpr()}
	default:
		g.label("stmt:save")
		asset := rapid.SampledFrom(assetPool).Draw(g.t, "saveAsset")
		accName := rapid.SampledFrom(accPool).Draw(g.t, "saveAcc")
		acc := g.accountExpr(accName)
		// later statements come back to the saved account and asset more often than chance would have it
		g.savedAcc, g.savedAsset = accName, asset
		if rapid.IntRange(0, 2).Draw(g.t, "saveAll") == 0 {
			return Save{AllAsset: g.assetExpr(asset), Acc: acc}
		}
		if rapid.IntRange(0, 9).Draw(g.t, "saveNegative") == 0 {
			// arithmetic that yields a negative amount: nothing can be set aside, the script is refused
			g.label("save:negative")
			k := big.NewInt(int64(rapid.IntRange(1, 40).Draw(g.t, "saveNeg")))
			return Save{Amount: BinOp{'-', LitMonetary{g.assetExpr(asset), big.NewInt(3), 0}, LitMonetary{g.assetExpr(asset), new(big.Int).Add(big.NewInt(3), k), 0}}, Acc: acc}
		}
		return Save{Amount: g.monExpr(asset, big.NewInt(int64(rapid.IntRange(0, 120).Draw(g.t, "saveAmt")))), Acc: acc}
	}
}

// routeTwice adds three plain sends: X pays Y, X is paid (by @world or by a third account), X pays Y again -- the
// second payment sized so that it needs what X received in between. The same route occurs twice in one
// transaction and the order of its postings matters to whoever replays them.
func (g *gctx) routeTwice() {
	asset := rapid.SampledFrom(assetPool).Draw(g.t, "rtAsset")
	x := rapid.SampledFrom(accPool).Draw(g.t, "rtPayer")
	y := rapid.SampledFrom(append([]string{"world"}, accPool...)).Draw(g.t, "rtPayee")
	if y == x {
		y = "world"
	}
	bal := g.env.Balance(x, asset)
	if bal.Sign() < 0 || bal.BitLen() > 62 {
		bal = big.NewInt(int64(rapid.IntRange(0, 40).Draw(g.t, "rtBalance")))
		if g.env.Balances[x] == nil {
			g.env.Balances[x] = map[string]*big.Int{}
		}
		g.env.Balances[x][asset] = new(big.Int).Set(bal)
	}
	first := new(big.Int).Set(bal)
	if bal.Sign() > 0 && rapid.Bool().Draw(g.t, "rtFirstPartial") {
		first = big.NewInt(int64(rapid.IntRange(1, int(min(bal.Int64(), 1000))).Draw(g.t, "rtFirst")))
	}
	received := big.NewInt(int64(rapid.IntRange(1, 60).Draw(g.t, "rtReceived")))
	second := new(big.Int).Add(new(big.Int).Sub(bal, first), received)
	if second.Sign() > 0 && rapid.IntRange(0, 3).Draw(g.t, "rtSecondLess") == 0 {
		second.Sub(second, big.NewInt(1))
	}
	plain := func(amount *big.Int, from, to string) Send {
		src := Expr(LitAccount{from})
		if from != "world" {
			src = g.accountExpr(from)
		}
		dst := Expr(LitAccount{to})
		if to != "world" {
			dst = g.accountExpr(to)
		}
		return Send{Amount: g.monExpr(asset, amount), Src: SrcAccount{Acc: src}, Dest: DestAccount{Acc: dst}}
	}
	triple := []Stmt{plain(first, x, y), plain(received, "world", x), plain(second, x, y)}
	if rapid.Bool().Draw(g.t, "rtFirstInProgram") {
		g.prog.Stmts = append(triple, g.prog.Stmts...)
	} else {
		g.prog.Stmts = append(g.prog.Stmts, triple...)
	}
	g.label("route-twice")
}

// selfPay adds two sends: an account pays itself (alone, or as one of two ordered sources), then the same
// account is drawn on again in the same script -- for everything it has, or for an exact amount it can afford.
func (g *gctx) selfPay() {
	asset := rapid.SampledFrom(assetPool).Draw(g.t, "spAsset")
	x := rapid.SampledFrom(accPool).Draw(g.t, "spAccount")
	bal := g.env.Balance(x, asset)
	if bal.Sign() <= 0 || bal.BitLen() > 62 {
		bal = big.NewInt(int64(rapid.IntRange(1, 200).Draw(g.t, "spBalance")))
		if g.env.Balances[x] == nil {
			g.env.Balances[x] = map[string]*big.Int{}
		}
		g.env.Balances[x][asset] = new(big.Int).Set(bal)
	}
	toSelf := big.NewInt(int64(rapid.IntRange(1, int(min(bal.Int64(), 1000))).Draw(g.t, "spToSelf")))
	var src Source = SrcAccount{Acc: g.accountExpr(x)}
	if rapid.IntRange(0, 2).Draw(g.t, "spOrdered") == 0 {
		z := rapid.SampledFrom(accPool).Draw(g.t, "spOther")
		if z != x {
			src = SrcInOrder{Srcs: []Source{SrcAccount{Acc: g.accountExpr(x)}, SrcAccount{Acc: g.accountExpr(z)}}}
		}
	}
	first := Send{Amount: g.monExpr(asset, toSelf), Src: src, Dest: DestAccount{Acc: g.accountExpr(x)}}
	y := rapid.SampledFrom(append([]string{"world"}, accPool...)).Draw(g.t, "spPayee")
	if y == x {
		y = "world"
	}
	dst := Expr(LitAccount{y})
	if y != "world" {
		dst = g.accountExpr(y)
	}
	again := Send{Src: SrcAccount{Acc: g.accountExpr(x)}, Dest: DestAccount{Acc: dst}}
	if rapid.Bool().Draw(g.t, "spAll") {
		again.AllAsset = g.assetExpr(asset)
	} else {
		again.Amount = g.monExpr(asset, new(big.Int).Set(bal))
	}
	pair := []Stmt{first, again}
	if rapid.Bool().Draw(g.t, "spFirstInProgram") {
		g.prog.Stmts = append(pair, g.prog.Stmts...)
	} else {
		g.prog.Stmts = append(g.prog.Stmts, pair...)
	}
	g.label("self-pay")
}

// GenTyped draws a statically acceptable program and an environment.
func GenTyped(t *rapid.T, cfg GenCfg) *Case {
	g := &gctx{t: t, cfg: cfg, prog: &Program{}, labels: map[string]bool{}, monVarAsset: map[string]string{}, accVarValue: map[string]string{},
		env: &Env{Vars: map[string]string{}, Balances: map[string]map[string]*big.Int{}, Meta: map[string]map[string]string{}, ReqMeta: map[string]string{}}}
	for _, acc := range accPool {
		for _, as := range assetPool {
			if rapid.IntRange(0, 3).Draw(t, "hasBalance") > 0 {
				if g.env.Balances[acc] == nil {
					g.env.Balances[acc] = map[string]*big.Int{}
				}
				g.env.Balances[acc][as] = g.balanceValue()
			}
		}
	}
	// a few variables that alias literal accounts / assets
	for i, n := 0, rapid.IntRange(0, 3).Draw(t, "nAccVars"); i < n; i++ {
		acc := rapid.SampledFrom(accPool).Draw(t, "aliasOf")
		name := g.declare(TAccount, acc, nil)
		g.accVars = append(g.accVars, name)
		g.accVarValue[name] = acc
	}
	if rapid.IntRange(0, 3).Draw(t, "metaAccVar") == 0 {
		// an account named through metadata, usable as source or destination
		acc := rapid.SampledFrom(accPool).Draw(t, "metaAccValue")
		g.env.Meta["cfg"] = map[string]string{"src": acc}
		name := g.declare(TAccount, "", MetaOrigin{Acc: LitAccount{"cfg"}, Key: "src"})
		g.accVars = append(g.accVars, name)
		g.accVarValue[name] = acc
		g.label("var:meta()")
	}
	if rapid.Bool().Draw(t, "assetVar") {
		as := rapid.SampledFrom(assetPool).Draw(t, "assetVarValue")
		g.assetVars = append(g.assetVars, g.declare(TAsset, as, nil))
	}
	n := 1
	if !cfg.SingleSend {
		n = rapid.IntRange(1, max(1, cfg.MaxStmts)).Draw(t, "nStmts")
	}
	for i := 0; i < n; i++ {
		if !cfg.OnlySends && i > 0 && rapid.IntRange(0, 2).Draw(t, "nonSend") == 0 {
			g.prog.Stmts = append(g.prog.Stmts, g.otherStmt())
			continue
		}
		g.prog.Stmts = append(g.prog.Stmts, g.send())
	}
	if !cfg.SingleSend && cfg.MaxStmts >= 3 && rapid.IntRange(0, 7).Draw(t, "routeTwice") == 0 {
		g.routeTwice()
	}
	if !cfg.SingleSend && cfg.MaxStmts >= 2 && rapid.IntRange(0, 7).Draw(t, "selfPay") == 0 {
		g.selfPay()
	}
	if !cfg.NoReqMeta && rapid.IntRange(0, 5).Draw(t, "reqMeta") == 0 {
		g.env.ReqMeta[rapid.SampledFrom([]string{"k1", "req", "k2"}).Draw(t, "reqKey")] = "from-request"
	}
	l := Layout{
		CRLF:      rapid.IntRange(0, 5).Draw(t, "crlf") == 0,
		Tabs:      rapid.Bool().Draw(t, "tabs"),
		Comments:  rapid.IntRange(0, 3).Draw(t, "comments") == 0,
		BlankRuns: rapid.IntRange(0, 3).Draw(t, "blank") == 0,
	}
	// bindings of number and monetary variables may be written with leading zeros too
	for _, v := range g.prog.Vars {
		val, bound := g.env.Vars[v.Name]
		if !bound || v.Origin != nil || (v.Type != TNumber && v.Type != TMonetary) {
			continue
		}
		if rapid.IntRange(0, 7).Draw(t, "paddedBinding") != 0 {
			continue
		}
		zeros := strings.Repeat("0", rapid.IntRange(1, 3).Draw(t, "bindingPad"))
		if i := strings.LastIndex(val, " "); v.Type == TMonetary && i >= 0 {
			g.env.Vars[v.Name] = val[:i+1] + zeros + val[i+1:]
		} else if v.Type == TNumber {
			g.env.Vars[v.Name] = zeros + val
		}
		g.label("leading-zeros")
	}
	c := &Case{Prog: g.prog, Env: g.env, Layout: l, Text: Render(g.prog, l), Excluded: g.excluded}
	for k := range g.labels {
		c.Labels = append(c.Labels, k)
	}
	if len(g.prog.Stmts) > 1 {
		c.Labels = append(c.Labels, "multi-statement")
	}
	return c
}

// EnvString renders the environment canonically (for keys and samples).
func EnvString(e *Env) string {
	var sb strings.Builder
	for _, a := range SortedAccounts(e.Balances) {
		for _, as := range assetPool {
			if b, ok := e.Balances[a][as]; ok {
				fmt.Fprintf(&sb, "%s/%s=%s ", a, as, b)
			}
		}
	}
	sb.WriteString("| vars:")
	for _, k := range sortedKeys(e.Vars) {
		fmt.Fprintf(&sb, "%s=%q ", k, e.Vars[k])
	}
	sb.WriteString("| meta:")
	for _, a := range sortedKeys(e.Meta) {
		for _, k := range sortedKeys(e.Meta[a]) {
			fmt.Fprintf(&sb, "%s.%s=%q ", a, k, e.Meta[a][k])
		}
	}
	sb.WriteString("| req:")
	for _, k := range sortedKeys(e.ReqMeta) {
		fmt.Fprintf(&sb, "%s=%q ", k, e.ReqMeta[k])
	}
	return sb.String()
}

func sortedKeys[V any](m map[string]V) []string {
	out := make([]string, 0, len(m))
	for k := range m {
		out = append(out, k)
	}
	for i := 1; i < len(out); i++ {
		for j := i; j > 0 && out[j] < out[j-1]; j-- {
			out[j], out[j-1] = out[j-1], out[j]
		}
	}
	return out
}

// Rebind returns a copy of the case's environment in which every supplied
// variable has a freshly drawn value of its type (same program text, other
// bindings): what a second client of the same script would send.
func Rebind(t *rapid.T, c *Case) *Env {
	e := &Env{Vars: map[string]string{}, Balances: c.Env.Balances, Meta: c.Env.Meta, ReqMeta: c.Env.ReqMeta}
	for _, v := range c.Prog.Vars {
		if v.Origin != nil {
			continue
		}
		old := c.Env.Vars[v.Name]
		switch v.Type {
		case TAccount:
			e.Vars[v.Name] = rapid.SampledFrom(accPool).Draw(t, "rebindAcc")
		case TAsset:
			e.Vars[v.Name] = rapid.SampledFrom(assetPool).Draw(t, "rebindAsset")
		case TNumber:
			e.Vars[v.Name] = fmt.Sprint(rapid.IntRange(0, 1000).Draw(t, "rebindNum"))
		case TString:
			e.Vars[v.Name] = rapid.StringMatching(`[a-z]{0,6}`).Draw(t, "rebindStr")
		case TMonetary:
			asset := rapid.SampledFrom(assetPool).Draw(t, "rebindMonAsset")
			if parts := strings.SplitN(old, " ", 2); len(parts) == 2 && rapid.Bool().Draw(t, "keepAsset") {
				asset = parts[0]
			}
			e.Vars[v.Name] = fmt.Sprintf("%s %d", asset, rapid.IntRange(0, 300).Draw(t, "rebindAmt"))
		case TPortion:
			e.Vars[v.Name] = old
		}
	}
	return e
}
