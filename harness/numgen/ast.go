// Package numgen holds a Numscript AST owned by the harness (never obtained
// from the parser under test), a printer, generators and a reference
// interpreter written from the language's source-level meaning.
package numgen

import (
	"fmt"
	"math/big"
	"strings"
)

type Type int

const (
	TAccount Type = iota + 1
	TAsset
	TNumber
	TString
	TMonetary
	TPortion
)

func (t Type) String() string {
	return [...]string{"?", "account", "asset", "number", "string", "monetary", "portion"}[t]
}

// ---- expressions

type Expr interface{ isExpr() }

type LitAccount struct{ Name string }
type LitAsset struct{ Name string }
type LitNumber struct {
	V   *big.Int
	Pad int // leading zeros in the text (decimal all the same)
}
type LitString struct{ S string }
type LitPortion struct{ Text string }
type LitMonetary struct {
	Asset  Expr
	Amount *big.Int
	Pad    int // leading zeros in the text of the amount
}
type VarRef struct{ Name string }
type BinOp struct {
	Op   byte // '+' or '-'
	L, R Expr
}

func (LitAccount) isExpr()  {}
func (LitAsset) isExpr()    {}
func (LitNumber) isExpr()   {}
func (LitString) isExpr()   {}
func (LitPortion) isExpr()  {}
func (LitMonetary) isExpr() {}
func (VarRef) isExpr()      {}
func (BinOp) isExpr()       {}

// ---- variables

type Origin interface{ isOrigin() }
type MetaOrigin struct {
	Acc Expr
	Key string
}
type BalanceOrigin struct{ Acc, Asset Expr }

func (MetaOrigin) isOrigin()    {}
func (BalanceOrigin) isOrigin() {}

type VarDecl struct {
	Type   Type
	Name   string
	Origin Origin
}

// ---- sources

type Source interface{ isSource() }

type Overdraft struct {
	Unbounded bool
	Amount    Expr
}
type SrcAccount struct {
	Acc       Expr
	Overdraft *Overdraft
}
type SrcMax struct {
	Max Expr
	Src Source
}
type SrcInOrder struct{ Srcs []Source }

// SrcAllotment is only legal as the top-level source of a send.
type SrcAllotment struct {
	Portions []Portion
	Srcs     []Source
}

func (SrcAccount) isSource()   {}
func (SrcMax) isSource()       {}
func (SrcInOrder) isSource()   {}
func (SrcAllotment) isSource() {}

type PortionKind int

const (
	PConst PortionKind = iota
	PVar
	PRemaining
)

type Portion struct {
	Kind PortionKind
	Text string // PConst: literal text; PVar: variable name
}

// ---- destinations

type Dest interface{ isDest() }

type KeptOrDest struct {
	Kept bool
	Dest Dest
}
type DestAccount struct{ Acc Expr }
type DestClause struct {
	Max Expr
	KD  KeptOrDest
}
type DestInOrder struct {
	Clauses   []DestClause
	Remaining KeptOrDest
}
type DestAllotment struct {
	Portions []Portion
	KDs      []KeptOrDest
}

func (DestAccount) isDest()   {}
func (DestInOrder) isDest()   {}
func (DestAllotment) isDest() {}

// ---- statements

type Stmt interface{ isStmt() }

type Send struct {
	Amount    Expr // nil => send all of AllAsset
	AllAsset  Expr
	Src       Source
	Dest      Dest
	DestFirst bool
}
type SetTxMeta struct {
	Key   string
	Value Expr
}
type SetAccountMeta struct {
	Acc   Expr
	Key   string
	Value Expr
}
type Save struct {
	Amount   Expr // nil => save all of AllAsset
	AllAsset Expr
	Acc      Expr
}
type Print struct{ E Expr }
type Fail struct{}

func (Send) isStmt()           {}
func (SetTxMeta) isStmt()      {}
func (SetAccountMeta) isStmt() {}
func (Save) isStmt()           {}
func (Print) isStmt()          {}
func (Fail) isStmt()           {}

type Program struct {
	Vars  []VarDecl
	Stmts []Stmt
}

// ---------------------------------------------------------------------------
// printer

// Layout controls insignificant formatting choices.
type Layout struct {
	CRLF      bool
	Tabs      bool
	Comments  bool
	BlankRuns bool // extra newlines where the grammar allows NEWLINE+
	TightOps  bool
}

type printer struct {
	sb strings.Builder
	l  Layout
	n  int
}

func (p *printer) nl() {
	if p.l.CRLF {
		p.sb.WriteString("\r\n")
	} else {
		p.sb.WriteString("\n")
	}
}

func (p *printer) ind(d int) {
	for i := 0; i < d; i++ {
		if p.l.Tabs {
			p.sb.WriteString("\t")
		} else {
			p.sb.WriteString("  ")
		}
	}
}

func (p *printer) w(s string) { p.sb.WriteString(s) }

func (p *printer) comment() {
	if p.l.Comments {
		p.n++
		if p.n%2 == 0 {
			p.w(" /* c" + fmt.Sprint(p.n) + " */")
		}
	}
}

func ExprString(e Expr) string {
	switch x := e.(type) {
	case LitAccount:
		return "@" + x.Name
	case LitAsset:
		return x.Name
	case LitNumber:
		return strings.Repeat("0", x.Pad) + x.V.String()
	case LitString:
		return `"` + x.S + `"`
	case LitPortion:
		return x.Text
	case LitMonetary:
		return "[" + ExprString(x.Asset) + " " + strings.Repeat("0", x.Pad) + x.Amount.String() + "]"
	case VarRef:
		return "$" + x.Name
	case BinOp:
		return ExprString(x.L) + " " + string(x.Op) + " " + ExprString(x.R)
	}
	return "?"
}

func portionString(p Portion) string {
	switch p.Kind {
	case PConst:
		return p.Text
	case PVar:
		return "$" + p.Text
	default:
		return "remaining"
	}
}

func (p *printer) source(s Source, d int) {
	switch x := s.(type) {
	case SrcAccount:
		p.w(ExprString(x.Acc))
		if x.Overdraft != nil {
			if x.Overdraft.Unbounded {
				p.w(" allowing unbounded overdraft")
			} else {
				p.w(" allowing overdraft up to " + ExprString(x.Overdraft.Amount))
			}
		}
	case SrcMax:
		p.w("max " + ExprString(x.Max) + " from ")
		p.source(x.Src, d)
	case SrcInOrder:
		p.w("{")
		p.nl()
		for _, sub := range x.Srcs {
			p.ind(d + 1)
			p.source(sub, d+1)
			p.comment()
			p.nl()
		}
		p.ind(d)
		p.w("}")
	case SrcAllotment:
		p.w("{")
		p.nl()
		for i, sub := range x.Srcs {
			p.ind(d + 1)
			p.w(portionString(x.Portions[i]) + " from ")
			p.source(sub, d+1)
			p.nl()
		}
		p.ind(d)
		p.w("}")
	}
}

func (p *printer) kd(k KeptOrDest, d int) {
	if k.Kept {
		p.w("kept")
		return
	}
	p.w("to ")
	p.dest(k.Dest, d)
}

func (p *printer) dest(dst Dest, d int) {
	switch x := dst.(type) {
	case DestAccount:
		p.w(ExprString(x.Acc))
	case DestInOrder:
		p.w("{")
		p.nl()
		for _, c := range x.Clauses {
			p.ind(d + 1)
			p.w("max " + ExprString(c.Max) + " ")
			p.kd(c.KD, d+1)
			p.nl()
		}
		p.ind(d + 1)
		p.w("remaining ")
		p.kd(x.Remaining, d+1)
		p.nl()
		p.ind(d)
		p.w("}")
	case DestAllotment:
		p.w("{")
		p.nl()
		for i, k := range x.KDs {
			p.ind(d + 1)
			p.w(portionString(x.Portions[i]) + " ")
			p.kd(k, d+1)
			p.nl()
		}
		p.ind(d)
		p.w("}")
	}
}

func (p *printer) stmt(s Stmt) {
	switch x := s.(type) {
	case Send:
		if x.Amount != nil {
			p.w("send " + ExprString(x.Amount) + " (")
		} else {
			p.w("send [" + ExprString(x.AllAsset) + " *] (")
		}
		p.nl()
		src := func() {
			p.ind(1)
			p.w("source = ")
			p.source(x.Src, 1)
		}
		dst := func() {
			p.ind(1)
			p.w("destination = ")
			p.dest(x.Dest, 1)
		}
		if x.DestFirst {
			dst()
			p.nl()
			src()
		} else {
			src()
			p.nl()
			dst()
		}
		p.nl()
		p.w(")")
	case SetTxMeta:
		p.w(`set_tx_meta("` + x.Key + `", ` + ExprString(x.Value) + ")")
	case SetAccountMeta:
		p.w("set_account_meta(" + ExprString(x.Acc) + `, "` + x.Key + `", ` + ExprString(x.Value) + ")")
	case Save:
		if x.Amount != nil {
			p.w("save " + ExprString(x.Amount) + " from " + ExprString(x.Acc))
		} else {
			p.w("save [" + ExprString(x.AllAsset) + " *] from " + ExprString(x.Acc))
		}
	case Print:
		p.w("print " + ExprString(x.E))
	case Fail:
		p.w("fail")
	}
}

// Render prints the program as Numscript text.
func Render(prog *Program, l Layout) string {
	p := &printer{l: l}
	if l.BlankRuns {
		p.nl()
	}
	if len(prog.Vars) > 0 {
		p.w("vars {")
		p.nl()
		for _, v := range prog.Vars {
			p.ind(1)
			p.w(v.Type.String() + " $" + v.Name)
			switch o := v.Origin.(type) {
			case MetaOrigin:
				p.w(" = meta(" + ExprString(o.Acc) + `, "` + o.Key + `")`)
			case BalanceOrigin:
				p.w(" = balance(" + ExprString(o.Acc) + ", " + ExprString(o.Asset) + ")")
			}
			p.nl()
			if l.BlankRuns {
				p.nl()
			}
		}
		p.w("}")
		p.nl()
	}
	for i, s := range prog.Stmts {
		if i > 0 {
			p.nl()
			if l.BlankRuns {
				p.nl()
			}
		}
		p.stmt(s)
	}
	if l.BlankRuns || len(prog.Stmts)%2 == 0 {
		p.nl()
	}
	return p.sb.String()
}
