// Package storeform emulates, without PostgreSQL, what a log entry looks like
// after ledgerstore.InsertLogs wrote it and a read method scanned it back:
// the payload went through jsonb, the date through timestamptz, and
// ledgerstore.Logs.ToCore rebuilt the typed value.
package storeform

import (
	"bytes"
	"context"
	"encoding/json"
	"fmt"
	"math/big"

	ledger "github.com/formancehq/ledger/internal"
	"github.com/formancehq/ledger/internal/storage/ledgerstore"
	"github.com/formancehq/ledger/verifharness/sqlrec"
	"github.com/formancehq/stack/libs/go-libs/bun/bunpaginate"
)

// JSONB re-encodes a JSON document the way jsonb does as far as a Go decoder
// can tell: exact numbers, no insignificant whitespace, characters unescaped.
func JSONB(in []byte) ([]byte, error) {
	dec := json.NewDecoder(bytes.NewReader(in))
	dec.UseNumber()
	var v any
	if err := dec.Decode(&v); err != nil {
		return nil, err
	}
	var buf bytes.Buffer
	enc := json.NewEncoder(&buf)
	enc.SetEscapeHTML(false)
	if err := enc.Encode(v); err != nil {
		return nil, err
	}
	return bytes.TrimSpace(buf.Bytes()), nil
}

// insertedData runs ledgerstore.Store.InsertLogs for cl over a recording driver and returns the value bound to the
// data column.
func insertedData(ledgerName string, cl *ledger.ChainedLog) (out []byte, err error) {
	script := &sqlrec.TxScript{FailAt: -1}
	db := sqlrec.NewDB(&sqlrec.Recorder{Tx: script})
	defer db.Close()
	defer func() {
		if p := recover(); p != nil {
			out, err = nil, fmt.Errorf("InsertLogs panicked: %v", p)
		}
	}()
	if err := ledgerstore.NewStoreForVerif(db, "bucket", ledgerName).InsertLogs(context.Background(), cl); err != nil {
		return nil, fmt.Errorf("InsertLogs: %w", err)
	}
	if len(script.Committed) != 1 || len(script.Committed[0]) < 6 {
		return nil, fmt.Errorf("InsertLogs committed %d row(s)", len(script.Committed))
	}
	switch v := script.Committed[0][5].(type) {
	case string:
		return []byte(v), nil
	case []byte:
		return v, nil
	default:
		return nil, fmt.Errorf("data column bound to a %T", v)
	}
}

// Row builds the row InsertLogs would write for cl.
func Row(ledgerName string, cl *ledger.ChainedLog) (*ledgerstore.Logs, error) {
	// the payload is what the real InsertLogs hands to the database driver for the jsonb column
	data, err := insertedData(ledgerName, cl)
	if err != nil {
		return nil, err
	}
	data, err = JSONB(data)
	if err != nil {
		return nil, fmt.Errorf("jsonb: %w", err)
	}
	row := &ledgerstore.Logs{
		Ledger:         ledgerName,
		ID:             (*bunpaginate.BigInt)(new(big.Int).Set(cl.ID)),
		Type:           cl.Type.String(),
		Hash:           append([]byte(nil), cl.Hash...),
		Data:           data,
		IdempotencyKey: cl.IdempotencyKey,
	}
	if err := row.Date.Scan(cl.Date.Time.Truncate(ledger.DatePrecision)); err != nil {
		return nil, fmt.Errorf("scan date: %w", err)
	}
	return row, nil
}

// RoundTrip returns cl as a store read would return it.
func RoundTrip(cl *ledger.ChainedLog) (out *ledger.ChainedLog, err error) {
	row, err := Row("l", cl)
	if err != nil {
		return nil, err
	}
	defer func() {
		if p := recover(); p != nil {
			out, err = nil, fmt.Errorf("ToCore panicked: %v", p)
		}
	}()
	return row.ToCore(), nil
}
