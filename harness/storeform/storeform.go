// Package storeform emulates, without PostgreSQL, what a log entry looks like
// after ledgerstore.InsertLogs wrote it and a read method scanned it back:
// the payload went through jsonb, the date through timestamptz, and
// ledgerstore.Logs.ToCore rebuilt the typed value.
package storeform

import (
	"bytes"
	"encoding/json"
	"fmt"
	"math/big"

	ledger "github.com/formancehq/ledger/internal"
	"github.com/formancehq/ledger/internal/storage/ledgerstore"
	"github.com/formancehq/stack/libs/go-libs/bun/bunpaginate"
)

// JSONB re-encodes a JSON document the way jsonb does as far as a Go decoder
// can tell: exact numbers, no insignificant whitespace, characters unescaped.
func JSONB(in []byte) ([]byte, error) {
	dec := json.NewDecoder(bytes.NewReader(in))
	dec.UseNumber()
	var v any
	if err := dec.Decode(&v); err != nil {
		return nil, err
	}
	var buf bytes.Buffer
	enc := json.NewEncoder(&buf)
	enc.SetEscapeHTML(false)
	if err := enc.Encode(v); err != nil {
		return nil, err
	}
	return bytes.TrimSpace(buf.Bytes()), nil
}

// Row builds the row InsertLogs would write for cl.
func Row(ledgerName string, cl *ledger.ChainedLog) (*ledgerstore.Logs, error) {
	data, err := json.Marshal(cl.Data)
	if err != nil {
		return nil, fmt.Errorf("marshal data: %w", err)
	}
	data, err = JSONB(data)
	if err != nil {
		return nil, fmt.Errorf("jsonb: %w", err)
	}
	row := &ledgerstore.Logs{
		Ledger:         ledgerName,
		ID:             (*bunpaginate.BigInt)(new(big.Int).Set(cl.ID)),
		Type:           cl.Type.String(),
		Hash:           append([]byte(nil), cl.Hash...),
		Data:           data,
		IdempotencyKey: cl.IdempotencyKey,
	}
	if err := row.Date.Scan(cl.Date.Time.Truncate(ledger.DatePrecision)); err != nil {
		return nil, fmt.Errorf("scan date: %w", err)
	}
	return row, nil
}

// RoundTrip returns cl as a store read would return it.
func RoundTrip(cl *ledger.ChainedLog) (out *ledger.ChainedLog, err error) {
	row, err := Row("l", cl)
	if err != nil {
		return nil, err
	}
	defer func() {
		if p := recover(); p != nil {
			out, err = nil, fmt.Errorf("ToCore panicked: %v", p)
		}
	}()
	return row.ToCore(), nil
}
