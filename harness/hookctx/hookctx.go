// Package hookctx routes the repository's verifhook calls to whatever harness
// object travels in the context of the calling goroutine, so that several
// harness engines can coexist in one test binary.
package hookctx

import (
	"context"
	"sync"

	"github.com/formancehq/ledger/internal/verifhook"
)

// Target receives the hook calls made with a context it was attached to.
type Target interface {
	Yield(ctx context.Context, point string)
	Await(ctx context.Context, point string, ch <-chan struct{})
	BeforeLock(ctx context.Context, name string, mu *sync.Mutex)
	Expose(ctx context.Context, name string, v any)
}

type key struct{}

// With attaches t to ctx.
func With(ctx context.Context, t Target) context.Context { return context.WithValue(ctx, key{}, t) }

func from(ctx context.Context) Target {
	t, _ := ctx.Value(key{}).(Target)
	return t
}

type dispatcher struct{}

func (dispatcher) Yield(ctx context.Context, point string) {
	if t := from(ctx); t != nil {
		t.Yield(ctx, point)
	}
}
func (dispatcher) Await(ctx context.Context, point string, ch <-chan struct{}) {
	if t := from(ctx); t != nil {
		t.Await(ctx, point, ch)
	}
}
func (dispatcher) BeforeLock(ctx context.Context, name string, mu *sync.Mutex) {
	if t := from(ctx); t != nil {
		t.BeforeLock(ctx, name, mu)
	}
}
func (dispatcher) Expose(ctx context.Context, name string, v any) {
	if t := from(ctx); t != nil {
		t.Expose(ctx, name, v)
	}
}

var once sync.Once

// Install registers the dispatcher as the process-wide verifhook handler.
func Install() { once.Do(func() { verifhook.SetHandler(dispatcher{}) }) }
