// Package gen holds rapid generators for the ledger's basic value domains.
// Every generator constructs only values the real callers can produce.
package gen

import (
	"fmt"
	"math/big"
	"strings"

	"pgregory.net/rapid"
)

// Segment is one account-address segment: [a-zA-Z0-9_]+(-[a-zA-Z0-9_]+)*
func Segment() *rapid.Generator[string] {
	return rapid.Custom(func(t *rapid.T) string {
		n := rapid.IntRange(1, 3).Draw(t, "parts")
		parts := make([]string, n)
		for i := range parts {
			parts[i] = rapid.StringMatching(`[a-zA-Z0-9_]{1,4}`).Draw(t, "part")
		}
		return strings.Join(parts, "-")
	})
}

// Address is a syntactically valid account address (never "world" unless
// drawn from the pool below).
func Address() *rapid.Generator[string] {
	return rapid.Custom(func(t *rapid.T) string {
		if rapid.IntRange(0, 9).Draw(t, "pool") < 6 {
			return rapid.SampledFrom([]string{"a", "b", "c", "users:001", "x-y:z_1", "bank", "orders:1234:pending"}).Draw(t, "addr")
		}
		n := rapid.IntRange(1, 3).Draw(t, "segs")
		segs := make([]string, n)
		for i := range segs {
			segs[i] = Segment().Draw(t, "seg")
		}
		return strings.Join(segs, ":")
	})
}

// Asset is a valid asset name: [A-Z][A-Z0-9]{0,16}(/\d{1,6})?
func Asset() *rapid.Generator[string] {
	return rapid.Custom(func(t *rapid.T) string {
		if rapid.IntRange(0, 9).Draw(t, "pool") < 6 {
			return rapid.SampledFrom([]string{"USD", "EUR/2", "COIN", "X", "A1B2/123456"}).Draw(t, "asset")
		}
		s := rapid.StringMatching(`[A-Z][A-Z0-9]{0,16}`).Draw(t, "code")
		if rapid.Bool().Draw(t, "prec") {
			s += "/" + rapid.StringMatching(`[0-9]{1,6}`).Draw(t, "digits")
		}
		return s
	})
}

var pow = func(b, e int64) *big.Int { return new(big.Int).Exp(big.NewInt(b), big.NewInt(e), nil) }

// Amount is a non-negative big integer with the corners over-represented.
func Amount() *rapid.Generator[*big.Int] {
	return rapid.Custom(func(t *rapid.T) *big.Int {
		switch rapid.IntRange(0, 11).Draw(t, "amountClass") {
		case 0:
			return big.NewInt(0)
		case 1:
			return big.NewInt(1)
		case 2:
			return new(big.Int).Sub(pow(2, 63), big.NewInt(1))
		case 3:
			return pow(2, 63)
		case 4:
			return pow(2, 64)
		case 5:
			return pow(10, int64(rapid.IntRange(19, 40).Draw(t, "exp")))
		case 6:
			b := rapid.SliceOfN(rapid.Byte(), 9, 20).Draw(t, "bytes")
			return new(big.Int).SetBytes(b)
		default:
			return big.NewInt(int64(rapid.IntRange(0, 1000).Draw(t, "small")))
		}
	})
}

// MetaString is a metadata key or value.
func MetaString() *rapid.Generator[string] {
	return rapid.Custom(func(t *rapid.T) string {
		switch rapid.IntRange(0, 9).Draw(t, "metaClass") {
		case 0:
			return ""
		case 1:
			return rapid.SampledFrom([]string{"<b>&amp;</b>", "é世界🙂", "a\"b\\c", "line\nbreak\ttab", "  ", "null", "{}", "[1,2]", "0", " lead", "trail "}).Draw(t, "special")
		case 2:
			return strings.Repeat(rapid.StringMatching(`[a-z]{1,4}`).Draw(t, "unit"), rapid.IntRange(50, 250).Draw(t, "rep"))
		case 3:
			return rapid.String().Filter(func(s string) bool { return !strings.ContainsRune(s, 0) }).Draw(t, "any")
		case 4:
			// the character PostgreSQL's jsonb refuses (the insertion fails there; nothing may tidy it away on the
			// way to the store, the hash has been computed over it)
			return rapid.SampledFrom([]string{"\x00", "a\x00b", "\x00\x00", "nul\x00"}).Draw(t, "nul")
		default:
			return rapid.StringMatching(`[a-zA-Z0-9_./-]{1,8}`).Draw(t, "plain")
		}
	})
}

// Metadata draws nil, empty or populated string metadata.
func Metadata() *rapid.Generator[map[string]string] {
	return rapid.Custom(func(t *rapid.T) map[string]string {
		switch rapid.IntRange(0, 5).Draw(t, "mdClass") {
		case 0:
			return nil
		case 1:
			return map[string]string{}
		default:
			n := rapid.IntRange(1, 4).Draw(t, "n")
			m := map[string]string{}
			for i := 0; i < n; i++ {
				m[MetaString().Draw(t, "k")] = MetaString().Draw(t, "v")
			}
			return m
		}
	})
}

// TimestampString is an RFC 3339 timestamp as a client would write it: any
// numeric offset or Z, 0-9 fractional digits, years 0000-9999 (the whole range
// RFC 3339 can spell), the first and the last instants of that range included.
func TimestampString() *rapid.Generator[string] {
	return rapid.Custom(func(t *rapid.T) string {
		if rapid.IntRange(0, 15).Draw(t, "rangeEdge") == 0 {
			// the two ends of the range, written in UTC or with an offset that points out of it
			return rapid.SampledFrom([]string{
				"0000-01-01T00:00:00Z", "0000-01-01T00:30:00+01:00", "0000-01-01T00:00:00.000001+14:00", "0000-12-31T23:59:59.999999Z",
				"9999-12-31T23:59:59Z", "9999-12-31T23:30:00-01:00", "9999-12-31T23:59:59.999999Z", "9999-12-31T23:59:59.9999994Z",
				"9999-12-31T23:59:59.9999995Z", "9999-12-31T23:59:59.999999999Z", "9999-12-31T23:59:59.9999996-12:00", "9999-01-01T00:00:00+23:59",
			}).Draw(t, "edge")
		}
		year := rapid.SampledFrom([]int{0, 1, 1969, 1970, 1999, 2000, 2023, 2024, 2038, 2262, 2263, 9998, 9999}).Draw(t, "year")
		if rapid.Bool().Draw(t, "anyYear") {
			year = rapid.IntRange(0, 9999).Draw(t, "y")
		}
		month := rapid.IntRange(1, 12).Draw(t, "mo")
		day := rapid.IntRange(1, 28).Draw(t, "d")
		if month == 12 && rapid.Bool().Draw(t, "eoy") {
			day = 31
		}
		h := rapid.SampledFrom([]int{0, 12, 23}).Draw(t, "h")
		mi := rapid.SampledFrom([]int{0, 30, 59}).Draw(t, "mi")
		s := rapid.SampledFrom([]int{0, 1, 59}).Draw(t, "s")
		out := fmt.Sprintf("%04d-%02d-%02dT%02d:%02d:%02d", year, month, day, h, mi, s)
		nd := rapid.IntRange(0, 9).Draw(t, "fracDigits")
		if nd > 0 {
			frac := rapid.SampledFrom([]string{"000000000", "999999999", "123456789", "000000500", "000000499", "999999500", "500000000", "000001000"}).Draw(t, "frac")
			out += "." + frac[:nd]
		}
		switch rapid.IntRange(0, 3).Draw(t, "zone") {
		case 0, 1:
			out += "Z"
		case 2:
			out += rapid.SampledFrom([]string{"+00:00", "-00:00", "+02:00", "-08:00", "+05:30", "+14:00", "-12:00", "+23:59"}).Draw(t, "off")
		default:
			out += fmt.Sprintf("%s%02d:%02d", rapid.SampledFrom([]string{"+", "-"}).Draw(t, "sg"), rapid.IntRange(0, 23).Draw(t, "oh"), rapid.IntRange(0, 59).Draw(t, "om"))
		}
		return out
	})
}
